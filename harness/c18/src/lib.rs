//! C18 — element containers never duplicate, leak or touch a moved-out element.
//!
//! Three families of checks, all with the ownership-tracking element type `ledger::Tracked`:
//!
//! (a) consuming-iterator HISTORIES over {next, next_back, len, size_hint, {:?}, ==, hash, drop-now} for all
//!     13 vector types: an exhaustive (cursor state x interleaving x consumer policy x operation) table per
//!     type plus random histories. Model = a deque of ids.
//!     `adapters.rs` widens this to the WHOLE iterator surface: every other Iterator / DoubleEndedIterator /
//!     ExactSizeIterator method and std adapter (nth, nth_back, last, count, fold, rfold, skip, step_by, take,
//!     rev, chain, zip, flatten, peekable, collect, sum, max, ..; through by_ref() and by value; arguments
//!     below / at / beyond the remaining length) judged by the std defaults run over a deque model, and to
//!     PAIRS of iterators in independently chosen cursor states for the binary operations (==, !=, hash
//!     contract, Iterator::eq/cmp/.., zip, chain, swap) with value-shifted contents.
//!     `observers.rs`: every observer in every variant a caller can select ({:?}, {:#?}, width / fill / sign /
//!     precision / hex flags, run-time width, nesting in Option / tuple / array, five sinks incl. failing ones;
//!     SipHash / recording / FNV hashers, hash_one, hash_slice, HashSet membership; ==, != through references,
//!     Option, arrays, tuples), judged by the ledger's observation log (exactly the live elements, in order) and the
//!     element texts shown; the same for Debug / Display / Hash / == of vectors, matrices and their views.
//!     `sources.rs`: FromIterator / collect() fed from BORROWED sources with fewer / exactly as many / more elements
//!     than needed: the source afterwards holds exactly the elements not placed in the vector.
//!     `unwind.rs`: the unwinding dimension. Every operation above, the vectors' / matrices' map / map2 / map3 /
//!     reduce / map_rows, FromIterator and the formatters are run with the user closure (or the element's own
//!     Default / Debug / Display / PartialEq / Ord / Hash impl) panicking at its k-th call, for every k; the panic
//!     must propagate, afterwards no element may be dropped / handed out twice or read after it was moved out;
//!     leaks are allowed (labelled).
//! (b) CONVERSIONS (arrays, tuples, iterators, map/zip, matrix arrays in both orders and both layouts,
//!     transposition, layout change): id at output position k = id the documentation places there; nothing
//!     cloned, dropped or even observed in transit; nothing leaked.
//! (c) VIEWS: slices alias the value's own storage, one entry per element in declaration order.
//!
//! What a correct `Debug` / `PartialEq` / `Hash` of the consuming iterator may do: touch LIVE elements
//! (slots in [start, end)) only. Nothing else is asserted about them except: they do not panic, an
//! iterator equals an identically-built, identically-driven twin, and equal iterators hash equally
//! (the `Hash`/`Eq` contract). The output format of `{:?}` and the hash value are not constrained.

pub mod adapters;
pub mod droppanic;
pub mod ledger;
pub mod observers;
pub mod shapes;
pub mod sources;
pub mod unwind;
pub mod zst;

use ledger::{Anomaly, Ctx, St, Tracked};
use shapes::*;
use std::collections::hash_map::DefaultHasher;
use std::hash::{Hash, Hasher};
use vek::mat::repr_c::column_major as cm;
use vek::mat::repr_c::row_major as rm;
use vek::vec::repr_c::{Extent2, Extent3, Rgb, Rgba, Uv, Uvw, Vec16, Vec2, Vec3, Vec32, Vec4, Vec64, Vec8};
use vkit::*;

const F8: &str = "F8-intoiter-derived-observers";

// ------------------------------------------------------------------------------------------------
// anomaly plumbing
// ------------------------------------------------------------------------------------------------

fn explain(a: &Anomaly) -> String {
    match a {
        Anomaly::DropUnknown { id, val } => format!("drop ran on a bit pattern that is not a registered element (id {}, val {:#x})", id, val),
        Anomaly::DoubleDrop { id, st, who } => format!("DOUBLE DROP of element #{} (state {:?}, dropped again by the {:?})", id, st, who),
        Anomaly::ContainerDroppedYielded { id, st } => format!("the container dropped element #{} which it had already yielded (state {:?}) - double ownership", id, st),
        Anomaly::ConsumerDroppedUnowned { id, st } => format!("the consumer dropped element #{} which it does not own (state {:?}) - handed out without being moved?", id, st),
        Anomaly::ObservedUnknown { obs, id, val, ctx } => format!("{:?} ran on a bit pattern that is not a registered element (id {}, val {:#x}, during {:?})", obs, id, val, ctx),
        Anomaly::ObservedNotLive { obs, id, val, st, ctx } => format!("{:?} (during {:?}) read element #{} (val {}) whose state is {:?}, i.e. not owned by the container any more", obs, ctx, id, val, st),
        Anomaly::YieldNotLive { id, st } => format!("element #{} was handed out although its state is {:?} (duplicate / dead element)", id, st),
        Anomaly::YieldUnknown { id, val } => format!("an unregistered bit pattern was handed out (id {}, val {:#x})", id, val),
    }
}

/// Look at the anomalies recorded since the last call. Everything except the F8 class fails the case;
/// the F8 class is tolerated iff it is listed as an open known finding. Returns whether F8 was hit.
fn settle(cx: &mut Cx, allow_f8: bool, at: &dyn Fn() -> String) -> Result<bool, Fail> {
    let an = ledger::take_anomalies();
    if an.is_empty() {
        return Ok(false);
    }
    let mut f8_hit: Option<&Anomaly> = None;
    for a in &an {
        if allow_f8 && a.is_f8_class() {
            if f8_hit.is_none() {
                f8_hit = Some(a);
            }
        } else {
            return Err(Fail::Violation(format!("{}: {}", at(), explain(a))));
        }
    }
    if let Some(a) = f8_hit {
        if cx.known(F8) {
            cx.label("F8:iterator-observer-touched-yielded-element(tolerated)");
            return Ok(true);
        }
        return Err(Fail::Violation(format!("{}: {} [{} such reads]", at(), explain(a), an.len())));
    }
    Ok(false)
}

/// Strict version for conversions and views.
fn settle_strict(cx: &mut Cx, at: &dyn Fn() -> String) -> CaseResult {
    settle(cx, false, at).map(|_| ())
}

/// After every container and every kept element has been dropped: each id dropped exactly once.
fn all_dropped_once(cx: &mut Cx, at: &dyn Fn() -> String) -> CaseResult {
    settle_strict(cx, at)?;
    cx.count();
    if let Some((id, e)) = ledger::first_not_dropped_once() {
        let what = if e.st == St::Live || e.st == St::Yielded { "LEAKED (never dropped)" } else { "not dropped exactly once" };
        fail!("{}: element #{} (val {:#x}) {}: {:?}", at(), id, e.val, what, e);
    }
    Ok(())
}

// ------------------------------------------------------------------------------------------------
// (a) consuming-iterator histories
// ------------------------------------------------------------------------------------------------

#[derive(Clone, Copy, Debug, PartialEq, Eq)]
enum Op {
    Len,
    SizeHint,
    Next,
    NextBack,
    Debug,
    Hash,
    Eq,
    DropNow,
}
const ALL_OPS: [Op; 8] = [Op::Len, Op::SizeHint, Op::Next, Op::NextBack, Op::Debug, Op::Hash, Op::Eq, Op::DropNow];

#[derive(Clone, Copy)]
struct Step {
    op: Op,
    /// for pulls: does the consumer keep the element (dropped after the iterator) or drop it at once
    keep: bool,
}

fn describe(steps: &[Step]) -> String {
    let mut s = String::new();
    for (i, st) in steps.iter().enumerate() {
        if i > 0 {
            s.push_str(", ");
        }
        s.push_str(match st.op {
            Op::Len => "len",
            Op::SizeHint => "size_hint",
            Op::Next => if st.keep { "next(keep)" } else { "next(drop)" },
            Op::NextBack => if st.keep { "next_back(keep)" } else { "next_back(drop)" },
            Op::Debug => "{:?}",
            Op::Hash => "hash",
            Op::Eq => "==twin",
            Op::DropNow => "drop-now",
        });
    }
    s.push_str(" ; drop iterator");
    s
}

/// Owner of an iterator under test. A vek `Drop` that panics must fail the case, not abort the process:
/// the explicit drop is caught and reported, a drop during unwinding (two iterators are alive) is swallowed.
struct Guard<I>(std::mem::ManuallyDrop<I>);
impl<I> Guard<I> {
    fn new(i: I) -> Self {
        Guard(std::mem::ManuallyDrop::new(i))
    }
    fn into_inner(self) -> I {
        let mut me = std::mem::ManuallyDrop::new(self);
        unsafe { std::mem::ManuallyDrop::take(&mut me.0) }
    }
    fn finish(self) -> Result<(), String> {
        let mut me = std::mem::ManuallyDrop::new(self);
        let inner = unsafe { std::mem::ManuallyDrop::take(&mut me.0) };
        vkit::catch(move || drop(inner))
    }
}
impl<I> Drop for Guard<I> {
    fn drop(&mut self) {
        let inner = unsafe { std::mem::ManuallyDrop::take(&mut self.0) };
        let _ = std::panic::catch_unwind(std::panic::AssertUnwindSafe(move || drop(inner)));
    }
}
impl<I> std::ops::Deref for Guard<I> {
    type Target = I;
    fn deref(&self) -> &I {
        &self.0
    }
}
impl<I> std::ops::DerefMut for Guard<I> {
    fn deref_mut(&mut self) -> &mut I {
        &mut self.0
    }
}

fn hash_of<H: Hash>(x: &H) -> u64 {
    let mut h = DefaultHasher::new();
    x.hash(&mut h);
    h.finish()
}

/// Drive an iterator and an identically-built twin through `steps`, then drop both, then drop what the
/// consumer kept, and compare everything with the deque model and the ledger.
fn run_history<V: VecOps<N>, const N: usize>(steps: &[Step], cx: &mut Cx) -> CaseResult {
    ledger::reset();
    let n = N;
    // element k of the main iterator has id k, of the twin id n+k; both have val k
    let mut it = Guard::new(V::build(&mut |k| ledger::fresh(k as u32)).into_it());
    let mut twin = Guard::new(V::build(&mut |k| ledger::fresh(k as u32)).into_it());
    sample!(cx, "{} n={} history=[{}]", V::NAME, n, describe(steps));
    let at = |i: usize| {
        let upto = (i + 1).min(steps.len());
        format!("{} (n={}) after [{}]{}", V::NAME, n, describe(&steps[..upto]).replace(" ; drop iterator", ""), if i >= steps.len() { " then drop of the iterator" } else { "" })
    };
    {
        let t = ledger::totals();
        check!(cx, t.ids == 2 * n && t.drops == 0 && t.clones == 0 && t.observed == 0, "{} into_iter(): elements were created/dropped/cloned/observed: {:?}", V::NAME, t);
        settle(cx, false, &|| format!("{} into_iter()", V::NAME))?;
    }
    let (mut s, mut e) = (0usize, n); // model: live ids are s..e
    let mut kept: Vec<Tracked> = Vec::new();
    let (mut pf, mut pb) = (0usize, 0usize);
    let mut observed_after_pull = false;
    let mut pulled_when_empty = false;
    let mut f8 = false;
    for (i, st) in steps.iter().enumerate() {
        match st.op {
            Op::Next | Op::NextBack => {
                let front = st.op == Op::Next;
                let (r, r2) = if front { (it.next(), twin.next()) } else { (it.next_back(), twin.next_back()) };
                let want = if s < e { Some(if front { s } else { e - 1 }) } else { None };
                for (which, r, base) in [("iterator", r, 0usize), ("twin", r2, n)] {
                    let got = r.as_ref().map(|t| (t.id, t.val));
                    if let Some(t) = r {
                        ledger::yielded(&t);
                        if st.keep { kept.push(t) } else { ledger::consume(t) }
                    }
                    cx.count();
                    let want_pair = want.map(|k| ((base + k) as u32, k as u32));
                    if got != want_pair {
                        fail!("{}: {} yielded (id,val) {:?}, the deque model [{}..{}) says {:?}", at(i), which, got, s, e, want_pair);
                    }
                }
                match want {
                    Some(_) => {
                        if front { s += 1; pf += 1 } else { e -= 1; pb += 1 }
                    }
                    None => pulled_when_empty = true,
                }
            }
            Op::Len => {
                check_eq!(cx, it.len(), e - s, "{}: len()", at(i));
                check_eq!(cx, twin.len(), e - s, "{}: twin len()", at(i));
            }
            Op::SizeHint => {
                check_eq!(cx, it.size_hint(), (e - s, Some(e - s)), "{}: size_hint()", at(i));
            }
            Op::Debug => {
                let text = ledger::with_ctx(Ctx::IterDebug, || format!("{:?}", *it));
                cx.count();
                let _ = text; // format not constrained
                observed_after_pull |= pf + pb > 0;
            }
            Op::Hash => {
                let (h1, h2) = ledger::with_ctx(Ctx::IterHash, || (hash_of(&*it), hash_of(&*twin)));
                check!(cx, h1 == h2, "{}: identically-built, identically-driven iterators hash differently ({:#x} vs {:#x})", at(i), h1, h2);
                observed_after_pull |= pf + pb > 0;
            }
            Op::Eq => {
                let (a, b) = ledger::with_ctx(Ctx::IterEq, || (*it == *twin, !(*it != *twin)));
                check!(cx, a && b, "{}: iterator != its identically-built, identically-driven twin (==: {}, !(!=): {})", at(i), a, b);
                observed_after_pull |= pf + pb > 0;
            }
            Op::DropNow => break,
        }
        f8 |= settle(cx, true, &|| at(i))?;
        // the cheap invariant after every step
        cx.count();
        if it.len() != e - s {
            fail!("{}: len() = {}, remaining count in the model = {}", at(i), it.len(), e - s);
        }
    }
    let rem = e - s;
    for (which, g) in [("iterator", it), ("twin", twin)] {
        cx.count();
        if let Err(msg) = g.finish() {
            fail!("{}: dropping the {} panicked: {}", at(steps.len()), which, msg);
        }
    }
    settle(cx, false, &|| at(steps.len()))?;
    for t in kept.drain(..) {
        ledger::consume(t);
    }
    settle(cx, false, &|| format!("{} when the consumer dropped the elements it kept", at(steps.len())))?;
    // final accounting: yielded exactly once XOR dropped by the iterator exactly once
    let es = ledger::entries();
    check!(cx, es.len() == 2 * n, "{}: {} elements exist at the end, {} were put in (clone / default created?)", at(steps.len()), es.len(), 2 * n);
    for base in [0usize, n] {
        for k in 0..n {
            let en = es[base + k];
            let was_yielded = k < s || k >= e;
            cx.count();
            let ok = if was_yielded {
                en.yields == 1 && en.container_drops == 0 && en.consumer_drops == 1 && en.st == St::Gone
            } else {
                en.yields == 0 && en.container_drops == 1 && en.consumer_drops == 0 && en.st == St::Dropped
            };
            if !ok {
                let what = if en.st == St::Live { "LEAKED: still live after the iterator was dropped" } else if was_yielded { "should have been yielded exactly once and never dropped by the iterator" } else { "should have been dropped exactly once by the iterator and never yielded" };
                fail!("{}: element #{} (slot {}) {}: {:?}", at(steps.len()), base + k, k, what, en);
            }
            check!(cx, en.clones == 0, "{}: element #{} was cloned", at(steps.len()), base + k);
        }
    }
    // measurement
    let both_ends_nonempty_drop = pf >= 1 && pb >= 1 && rem >= 1;
    cx.set_nontrivial(both_ends_nonempty_drop || observed_after_pull);
    if both_ends_nonempty_drop { cx.label("pulled-both-ends,dropped-nonempty"); }
    if observed_after_pull { cx.label("observer-after-pull"); }
    if pulled_when_empty { cx.label("pull-on-exhausted->None"); }
    if pf + pb == 0 { cx.label("dropped-untouched"); }
    if rem == 0 { cx.label("drained"); }
    if pf + pb > 0 && rem > 0 && !(pf >= 1 && pb >= 1) { cx.label("one-end-only,dropped-nonempty"); }
    if !kept_policy_uniform(steps) { cx.label("consumer-mixes-keep-and-drop"); }
    let _ = f8;
    Ok(())
}

fn kept_policy_uniform(steps: &[Step]) -> bool {
    let mut it = steps.iter().filter(|s| matches!(s.op, Op::Next | Op::NextBack)).map(|s| s.keep);
    match it.next() {
        None => true,
        Some(first) => it.all(|k| k == first),
    }
}

const fn n_states(n: u64) -> u64 {
    (n + 1) * (n + 2) / 2
}
/// states x 3 interleavings x 3 consumer policies x 8 operations
const fn table_total(n: u64) -> u64 {
    n_states(n) * 3 * 3 * 8
}

/// EXHAUSTIVE: every cursor state (start,end), reached by front-first / back-first / alternating pulls,
/// under three consumer policies, then one operation, then drop.
fn table_case<V: VecOps<N>, const N: usize>(idx: u64, cx: &mut Cx) -> CaseResult {
    let n = N;
    let mut i = idx;
    let op = ALL_OPS[(i % 8) as usize];
    i /= 8;
    let inter = (i % 3) as usize;
    i /= 3;
    let policy = (i % 3) as usize;
    i /= 3;
    // states ordered by the number of pulls p = 0..=n, then by the number of front pulls 0..=p,
    // so that the first failing index is also the shortest history
    let (mut p, mut rest) = (0usize, i as usize);
    while rest > p {
        rest -= p + 1;
        p += 1;
    }
    let (start, end) = (rest, n - (p - rest));
    debug_assert!(start <= end && end <= n);
    let (mut f, mut b) = (start, n - end);
    let mut pulls: Vec<Op> = Vec::with_capacity(n);
    match inter {
        0 => {
            pulls.extend(std::iter::repeat(Op::Next).take(f));
            pulls.extend(std::iter::repeat(Op::NextBack).take(b));
        }
        1 => {
            pulls.extend(std::iter::repeat(Op::NextBack).take(b));
            pulls.extend(std::iter::repeat(Op::Next).take(f));
        }
        _ => {
            while f > 0 || b > 0 {
                if f > 0 { pulls.push(Op::Next); f -= 1; }
                if b > 0 { pulls.push(Op::NextBack); b -= 1; }
            }
        }
    }
    let keep_at = |q: usize| match policy { 0 => false, 1 => true, _ => q % 2 == 0 };
    let mut steps: Vec<Step> = pulls.iter().enumerate().map(|(q, &op)| Step { op, keep: keep_at(q) }).collect();
    let q = steps.len();
    steps.push(Step { op, keep: keep_at(q) });
    if op != Op::DropNow {
        steps.push(Step { op: Op::Len, keep: false });
        steps.push(Step { op: Op::SizeHint, keep: false });
        let rem_after = (end - start).saturating_sub(if matches!(op, Op::Next | Op::NextBack) { 1 } else { 0 });
        if rem_after == 0 {
            // None once exhausted and ever after
            for (w, o) in [Op::Next, Op::NextBack, Op::Next, Op::NextBack, Op::Len, Op::SizeHint].into_iter().enumerate() {
                steps.push(Step { op: o, keep: keep_at(q + 1 + w) });
            }
        }
    }
    cx.label(match inter { 0 => "reach:front-first", 1 => "reach:back-first", _ => "reach:alternating" });
    run_history::<V, N>(&steps, cx)
}

/// Random histories of length 0..=2n+8.
fn random_case<V: VecOps<N>, const N: usize>(t: &mut Tape, cx: &mut Cx) -> CaseResult {
    let len = t.below(2 * N + 9);
    let mut steps = Vec::with_capacity(len);
    for _ in 0..len {
        // weights (of 64): len 2, size_hint 2, next 25, next_back 25, debug 3, hash 3, eq 3, drop-now 1
        // (the iterator is dropped at the end of every history anyway; byte 0 -> the harmless `len`)
        let op = match t.below(64) {
            0..=1 => Op::Len,
            2..=3 => Op::SizeHint,
            4..=28 => Op::Next,
            29..=53 => Op::NextBack,
            54..=56 => Op::Debug,
            57..=59 => Op::Hash,
            60..=62 => Op::Eq,
            _ => Op::DropNow,
        };
        let keep = if matches!(op, Op::Next | Op::NextBack) { t.bool() } else { false };
        steps.push(Step { op, keep });
        if op == Op::DropNow {
            break;
        }
    }
    run_history::<V, N>(&steps, cx)
}
const fn random_tape_len(n: usize) -> usize {
    1 + 2 * (2 * n + 8)
}

// ------------------------------------------------------------------------------------------------
// (b) conversions: vectors
// ------------------------------------------------------------------------------------------------

const VEC_CONV_FIXED: u64 = 13;
const fn vec_conv_total(n: u64) -> u64 {
    VEC_CONV_FIXED + 2 * (2 * n + 3) // from_iter and from_slice with source lengths 0..=2n+2
}

macro_rules! in_transit {
    ($cx:expr, $what:expr, $e:expr) => {{
        let before = ledger::totals();
        let r = $e;
        let after = ledger::totals();
        $cx.count();
        if before != after {
            fail!("{}: elements were created / cloned / dropped / observed in transit: before {:?}, after {:?}", $what, before, after);
        }
        settle_strict($cx, &|| format!("{}", $what))?;
        r
    }};
}

/// Like `in_transit!` for expressions that create exactly `$n` fresh elements themselves.
macro_rules! in_transit_created {
    ($cx:expr, $n:expr, $what:expr, $e:expr) => {{
        let before = ledger::totals();
        let r = $e;
        let after = ledger::totals();
        $cx.count();
        if after.ids != before.ids + $n || after.drops != before.drops || after.clones != before.clones || after.observed != before.observed {
            fail!("{}: elements were cloned / dropped / observed in transit: before {:?}, after {:?}", $what, before, after);
        }
        settle_strict($cx, &|| format!("{}", $what))?;
        r
    }};
}

fn vec_conv_case<V: VecOps<N>, const N: usize>(idx: u64, cx: &mut Cx) -> CaseResult {
    ledger::reset();
    let n = N;
    let name = V::NAME;
    cx.nontrivial();
    // vals are offset so that val != id and a Default-created element is recognisable
    let mk = |k: usize| ledger::fresh(1000 + k as u32);
    macro_rules! expect_ids {
        ($what:expr, $get:expr, $len:expr, $want:expr) => {{
            for k in 0..$len {
                let got: u32 = $get(k);
                let want: u32 = $want(k);
                cx.count();
                if got != want {
                    fail!("{} {}: position {} holds element #{}, the documented order puts #{} there", name, $what, k, got, want);
                }
            }
        }};
    }
    match idx {
        0 => {
            cx.label("From<[T;N]>");
            sample!(cx, "{}::from([#0..#{}])", name, n - 1);
            let a: [Tracked; N] = std::array::from_fn(mk);
            let v = in_transit!(cx, format!("{}::from([T; {}])", name, n), V::from_array(a));
            expect_ids!("From<[T;N]>", |k| v.fld(k).id, n, |k| k as u32);
            drop(v);
        }
        1 => {
            cx.label("into_array");
            let v = V::build(&mut |k| mk(k));
            let a = in_transit!(cx, format!("{}::into_array", name), v.into_array_());
            expect_ids!("into_array", |k: usize| a[k].id, n, |k| k as u32);
            drop(a);
        }
        2 => {
            cx.label("into_tuple");
            let v = V::build(&mut |k| mk(k));
            let t = in_transit!(cx, format!("{}::into_tuple", name), v.into_tuple_());
            check_eq!(cx, t.len(), n, "{} into_tuple arity", name);
            expect_ids!("into_tuple", |k: usize| t[k].id, n, |k| k as u32);
            drop(t);
        }
        3 => {
            cx.label("From<tuple>");
            let v = in_transit_created!(cx, n, format!("{}::from(tuple)", name), V::from_tuple(&mut |k| mk(k)));
            expect_ids!("From<tuple>", |k| v.fld(k).id, n, |k| k as u32);
            drop(v);
        }
        4 => {
            cx.label("into_iter().collect()");
            let v = V::build(&mut |k| mk(k));
            // bounded: a broken `next` must not turn the harness into an endless loop
            let mut it = v.into_it();
            let out: Vec<Tracked> = in_transit!(cx, format!("{}::into_iter().collect::<Vec<_>>()", name), it.by_ref().take(n + 1).collect());
            check!(cx, out.len() > n || it.next().is_none(), "{} into_iter(): Some after the iterator returned None", name);
            drop(it);
            check_eq!(cx, out.len(), n, "{} into_iter().collect() length", name);
            expect_ids!("into_iter().collect()", |k: usize| out[k].id, n, |k| k as u32);
            drop(out);
        }
        5 => {
            cx.label("into_iter().rev().collect()");
            let v = V::build(&mut |k| mk(k));
            let mut it = v.into_it().rev();
            let out: Vec<Tracked> = in_transit!(cx, format!("{}::into_iter().rev().collect::<Vec<_>>()", name), it.by_ref().take(n + 1).collect());
            check!(cx, out.len() > n || it.next().is_none(), "{} into_iter().rev(): Some after the iterator returned None", name);
            drop(it);
            check_eq!(cx, out.len(), n, "{} into_iter().rev().collect() length", name);
            expect_ids!("into_iter().rev().collect()", |k: usize| out[k].id, n, |k| (n - 1 - k) as u32);
            drop(out);
        }
        6 => {
            cx.label("map(identity)");
            let v = V::build(&mut |k| mk(k));
            let w = in_transit!(cx, format!("{}::map(|t| t)", name), v.map_identity());
            expect_ids!("map(|t| t)", |k| w.fld(k).id, n, |k| k as u32);
            drop(w);
        }
        7 => {
            cx.label("map(consume)");
            let v = V::build(&mut |k| mk(k));
            let ids = v.map_consume();
            settle_strict(cx, &|| format!("{}::map(consuming closure)", name))?;
            expect_ids!("map(|t| id of t)", |k| *ids.fld(k), n, |k| k as u32);
            for k in 0..n {
                let e = ledger::entry(k as u32).unwrap();
                check!(cx, e.yields == 1 && e.consumer_drops == 1 && e.container_drops == 0 && e.clones == 0, "{}::map: element #{} must reach the closure exactly once and not be dropped by the vector: {:?}", name, k, e);
            }
        }
        8 | 9 => {
            let what = if idx == 8 { "zip" } else { "map2(|a, b| (a, b))" };
            cx.label(if idx == 8 { "zip" } else { "map2" });
            let a = V::build(&mut |k| mk(k));
            let b = V::build(&mut |k| mk(100 + k));
            let z = in_transit!(cx, format!("{}::{}", name, what), if idx == 8 { a.zip_(b) } else { a.map2_pair(b) });
            expect_ids!(what, |k| z.fld(k).0.id, n, |k| k as u32);
            expect_ids!(what, |k| z.fld(k).1.id, n, |k| (n + k) as u32);
            drop(z);
        }
        10 => {
            cx.label("map3");
            let a = V::build(&mut |k| mk(k));
            let b = V::build(&mut |k| mk(100 + k));
            let c = V::build(&mut |k| mk(200 + k));
            let z = a.map3_outer(b, c);
            settle_strict(cx, &|| format!("{}::map3", name))?;
            expect_ids!("map3 (first)", |k| z.fld(k).0.id, n, |k| k as u32);
            expect_ids!("map3 (third)", |k| z.fld(k).1.id, n, |k| (2 * n + k) as u32);
            for k in 0..n {
                let e = ledger::entry((n + k) as u32).unwrap();
                check!(cx, e.yields == 1 && e.consumer_drops == 1 && e.container_drops == 0, "{}::map3: middle element #{} must reach the closure exactly once: {:?}", name, n + k, e);
            }
            let t = ledger::totals();
            check!(cx, t.clones == 0 && t.drops == n as u32 && t.ids == 3 * n, "{}::map3: unexpected clone/drop/creation: {:?}", name, t);
            drop(z);
        }
        11 => {
            cx.label("array round trip");
            let a: [Tracked; N] = std::array::from_fn(mk);
            let back = in_transit!(cx, format!("{}::from(array).into_array()", name), V::from_array(a).into_array_());
            expect_ids!("from(array).into_array()", |k: usize| back[k].id, n, |k| k as u32);
            drop(back);
        }
        12 => {
            cx.label("collect-then-from_iter round trip");
            let v = V::build(&mut |k| mk(k));
            let mut src = v.into_it();
            let w = V::from_iter_(&mut src);
            settle_strict(cx, &|| format!("{}::from_iter(v.into_iter())", name))?;
            expect_ids!("from_iter(v.into_iter())", |k| w.fld(k).id, n, |k| k as u32);
            check_eq!(cx, src.len(), 0, "{} from_iter(v.into_iter()): source not drained", name);
            drop(src);
            drop(w);
        }
        _ if idx >= VEC_CONV_FIXED + 2 * n as u64 + 3 => {
            // from_slice (T: Default + Copy, hence u32 elements): same order / tail / surplus rules
            let len = (idx - VEC_CONV_FIXED - (2 * n as u64 + 3)) as usize;
            cx.label(if len < n { "from_slice:short" } else if len == n { "from_slice:exact" } else { "from_slice:long" });
            let src: Vec<u32> = (0..len).map(|k| 5000 + k as u32).collect();
            let v = V::from_slice_u32(&src);
            for k in 0..n {
                let want = if k < len { 5000 + k as u32 } else { u32::default() };
                check_eq!(cx, *v.fld(k), want, "{}::from_slice({} elements): position {}", name, len, k);
            }
        }
        _ => {
            // FromIterator with a source of `len` elements: short -> tail Default-filled (`T: Default` bound,
            // "Elements are initialized to their default values"), exact, long -> surplus never enters the vector.
            let len = (idx - VEC_CONV_FIXED) as usize;
            cx.label(if len == 0 { "from_iter:empty" } else if len < n { "from_iter:short" } else if len == n { "from_iter:exact" } else { "from_iter:long" });
            sample!(cx, "{}::from_iter({} elements)", name, len);
            let src: Vec<Tracked> = (0..len).map(mk).collect();
            let mut it = src.into_iter();
            let v = V::from_iter_(&mut it);
            drop(it);
            settle_strict(cx, &|| format!("{}::from_iter({} elements)", name, len))?;
            let taken = len.min(n);
            let mut seen: Vec<u32> = Vec::new();
            for k in 0..n {
                let t = v.fld(k);
                let e = ledger::entry(t.id);
                cx.count();
                if k < taken {
                    if t.id != k as u32 {
                        fail!("{}::from_iter({} elements): position {} holds element #{}, want source element #{}", name, len, k, t.id, k);
                    }
                } else {
                    match e {
                        Some(e) if e.from_default && e.val == t.val => {}
                        _ => fail!("{}::from_iter({} elements): tail position {} holds #{} (val {:#x}) which is not a Default-created element: {:?}", name, len, k, t.id, t.val, e),
                    }
                }
                let e = e.unwrap();
                check!(cx, e.st == St::Live && e.container_drops + e.consumer_drops == 0 && e.clones == 0, "{}::from_iter({} elements): element at position {} is not live / was cloned: {:?}", name, len, k, e);
                check!(cx, !seen.contains(&t.id), "{}::from_iter({} elements): element #{} appears twice in the result", name, len, t.id);
                seen.push(t.id);
            }
            // everything that is not in the result (overwritten defaults, surplus source elements) is dropped exactly once
            let es = ledger::entries();
            for (id, e) in es.iter().enumerate() {
                cx.count();
                if seen.contains(&(id as u32)) {
                    continue;
                }
                if !(e.st == St::Dropped && e.container_drops == 1 && e.clones == 0) {
                    fail!("{}::from_iter({} elements): element #{} ({}) is not in the result and was not dropped exactly once: {:?}", name, len, id, if e.from_default { "a Default value" } else { "a source element" }, e);
                }
                check!(cx, e.from_default || id >= n, "{}::from_iter({} elements): source element #{} was dropped instead of stored", name, len, id);
            }
            drop(v);
        }
    }
    all_dropped_once(cx, &|| format!("{} conversion #{} after dropping every output", name, idx))
}


// ------------------------------------------------------------------------------------------------
// (b) conversions: matrices
// ------------------------------------------------------------------------------------------------

const MAT_CONV_TOTAL: u64 = 18;

fn mat_conv_case<M: MatOps<N, NN>, const N: usize, const NN: usize>(idx: u64, cx: &mut Cx) -> CaseResult
where
    M::Other: MatOps<N, NN, Other = M>,
{
    ledger::reset();
    let n = N;
    let name = M::NAME;
    cx.nontrivial();
    // id table of a matrix built through the public fields: ids[i][j]
    let mut ids = [[u32::MAX; N]; N];
    let build = |ids: &mut [[u32; N]; N], off: u32| {
        M::build(&mut |i, j| {
            let t = ledger::fresh(off + (10 * i + j) as u32);
            ids[i][j] = t.id;
            t
        })
    };
    macro_rules! want {
        ($what:expr, $pos:expr, $got:expr, $want:expr) => {{
            cx.count();
            let (g, w): (u32, u32) = ($got, $want);
            if g != w {
                fail!("{} {}: {} holds element #{}, the documented order puts #{} there (ids by (row, col): {:?})", name, $what, $pos, g, w, ids);
            }
        }};
    }
    match idx {
        0 => {
            cx.label("into_row_array");
            let m = build(&mut ids, 500);
            sample!(cx, "{}::into_row_array, ids by (row,col) = {:?}", name, ids);
            let a = in_transit!(cx, format!("{}::into_row_array", name), m.into_row_array_());
            for i in 0..n { for j in 0..n { want!("into_row_array", format!("[{}] (= m[{}][{}])", i * n + j, i, j), a[i * n + j].id, ids[i][j]); } }
        }
        1 => {
            cx.label("into_col_array");
            let m = build(&mut ids, 500);
            let a = in_transit!(cx, format!("{}::into_col_array", name), m.into_col_array_());
            for i in 0..n { for j in 0..n { want!("into_col_array", format!("[{}] (= m[{}][{}])", j * n + i, i, j), a[j * n + i].id, ids[i][j]); } }
        }
        2 => {
            cx.label("into_row_arrays");
            let m = build(&mut ids, 500);
            let a = in_transit!(cx, format!("{}::into_row_arrays", name), m.into_row_arrays_());
            for i in 0..n { for j in 0..n { want!("into_row_arrays", format!("[{}][{}]", i, j), a[i][j].id, ids[i][j]); } }
        }
        3 => {
            cx.label("into_col_arrays");
            let m = build(&mut ids, 500);
            let a = in_transit!(cx, format!("{}::into_col_arrays", name), m.into_col_arrays_());
            for i in 0..n { for j in 0..n { want!("into_col_arrays", format!("[{}][{}] (column {}, row {})", j, i, j, i), a[j][i].id, ids[i][j]); } }
        }
        4 | 5 => {
            let row = idx == 4;
            let what = if row { "from_row_array" } else { "from_col_array" };
            cx.label(if row { "from_row_array" } else { "from_col_array" });
            let a: [Tracked; NN] = std::array::from_fn(|k| ledger::fresh(700 + k as u32));
            let aid: [u32; NN] = std::array::from_fn(|k| a[k].id);
            let m = in_transit!(cx, format!("{}::{}", name, what), if row { M::from_row_array_(a) } else { M::from_col_array_(a) });
            for i in 0..n { for j in 0..n {
                let k = if row { i * n + j } else { j * n + i };
                ids[i][j] = aid[k];
                want!(what, format!("m[{}][{}] (array index {})", i, j, k), m.at(i, j).id, aid[k]);
            } }
        }
        6 | 7 => {
            let row = idx == 6;
            let what = if row { "from_row_arrays" } else { "from_col_arrays" };
            cx.label(if row { "from_row_arrays" } else { "from_col_arrays" });
            let a: [[Tracked; N]; N] = std::array::from_fn(|p| std::array::from_fn(|q| ledger::fresh(700 + (10 * p + q) as u32)));
            let aid: [[u32; N]; N] = std::array::from_fn(|p| std::array::from_fn(|q| a[p][q].id));
            let m = in_transit!(cx, format!("{}::{}", name, what), if row { M::from_row_arrays_(a) } else { M::from_col_arrays_(a) });
            for i in 0..n { for j in 0..n {
                let w = if row { aid[i][j] } else { aid[j][i] };
                ids[i][j] = w;
                want!(what, format!("m[{}][{}]", i, j), m.at(i, j).id, w);
            } }
        }
        8 => {
            cx.label("transposed");
            let m = build(&mut ids, 500);
            let t = in_transit!(cx, format!("{}::transposed", name), m.transposed_());
            for i in 0..n { for j in 0..n { want!("transposed", format!("t[{}][{}]", i, j), t.at(i, j).id, ids[j][i]); } }
        }
        9 => {
            cx.label("transpose(in place)");
            let mut m = build(&mut ids, 500);
            in_transit!(cx, format!("{}::transpose", name), m.transpose_());
            for i in 0..n { for j in 0..n { want!("transpose", format!("m[{}][{}]", i, j), m.at(i, j).id, ids[j][i]); } }
        }
        10 => {
            cx.label("layout conversion");
            let m = build(&mut ids, 500);
            let o = in_transit!(cx, format!("{}::from({})", <M::Other as MatOps<N, NN>>::NAME, name), m.relayout());
            for i in 0..n { for j in 0..n { want!("-> other layout", format!("m[{}][{}]", i, j), o.at(i, j).id, ids[i][j]); } }
        }
        11 => {
            cx.label("new(m00, m01, ..)");
            let mut arg = [u32::MAX; NN];
            let m = in_transit_created!(cx, NN, format!("{}::new", name), M::new_(&mut |q| { let t = ledger::fresh(800 + q as u32); arg[q] = t.id; t }));
            for i in 0..n { for j in 0..n { ids[i][j] = arg[i * n + j]; want!("new", format!("m[{}][{}] (argument {})", i, j, i * n + j), m.at(i, j).id, arg[i * n + j]); } }
        }
        12 => {
            cx.label("map(identity)");
            let m = build(&mut ids, 500);
            let r = in_transit!(cx, format!("{}::map(|t| t)", name), m.map_identity());
            for i in 0..n { for j in 0..n { want!("map(|t| t)", format!("m[{}][{}]", i, j), r.at(i, j).id, ids[i][j]); } }
        }
        13 => {
            cx.label("map(consume)");
            let m = build(&mut ids, 500);
            let r = m.map_consume();
            settle_strict(cx, &|| format!("{}::map(consuming closure)", name))?;
            for i in 0..n { for j in 0..n {
                want!("map(|t| id of t)", format!("m[{}][{}]", i, j), M::ids_at(&r, i, j), ids[i][j]);
                let e = ledger::entry(ids[i][j]).unwrap();
                check!(cx, e.yields == 1 && e.consumer_drops == 1 && e.container_drops == 0 && e.clones == 0, "{}::map: element #{} must reach the closure exactly once: {:?}", name, ids[i][j], e);
            } }
        }
        14 => {
            cx.label("map2");
            let m = build(&mut ids, 500);
            let mut ids2 = [[u32::MAX; N]; N];
            let o = build(&mut ids2, 600);
            let r = m.map2_left(o);
            settle_strict(cx, &|| format!("{}::map2", name))?;
            for i in 0..n { for j in 0..n {
                want!("map2(|a, b| a)", format!("m[{}][{}]", i, j), r.at(i, j).id, ids[i][j]);
                let e = ledger::entry(ids2[i][j]).unwrap();
                check!(cx, e.yields == 1 && e.consumer_drops == 1 && e.container_drops == 0, "{}::map2: right element #{} must reach the closure exactly once: {:?}", name, ids2[i][j], e);
                let e = ledger::entry(ids[i][j]).unwrap();
                check!(cx, e.st == St::Live && e.clones == 0, "{}::map2: left element #{} must be live in the result: {:?}", name, ids[i][j], e);
            } }
        }
        15 => {
            cx.label("map_rows/map_cols(identity)");
            let m = build(&mut ids, 500);
            let r = in_transit!(cx, format!("{}::map_{{rows,cols}}(|l| l)", name), m.map_lines_identity());
            for i in 0..n { for j in 0..n { want!("map_rows/map_cols(|l| l)", format!("m[{}][{}]", i, j), r.at(i, j).id, ids[i][j]); } }
        }
        16 => {
            cx.label("diagonal");
            let m = build(&mut ids, 500);
            let d = m.diagonal_();
            settle_strict(cx, &|| format!("{}::diagonal", name))?;
            check_eq!(cx, d.len(), n, "{} diagonal length", name);
            for i in 0..n { for j in 0..n {
                let e = ledger::entry(ids[i][j]).unwrap();
                if i == j {
                    want!("diagonal", format!("d[{}]", i), d[i].id, ids[i][i]);
                    check!(cx, e.st == St::Live && e.clones == 0, "{}::diagonal: element ({},{}) must be live in the result: {:?}", name, i, j, e);
                } else {
                    check!(cx, e.st == St::Dropped && e.container_drops == 1 && e.clones == 0, "{}::diagonal: off-diagonal element ({},{}) must be dropped exactly once: {:?}", name, i, j, e);
                }
            } }
        }
        _ => {
            cx.label("round trips");
            let m = build(&mut ids, 500);
            let r = in_transit!(cx, format!("{} array/layout round trips", name), {
                let m = M::from_row_arrays_(m.into_row_arrays_());
                let m = M::from_col_arrays_(m.into_col_arrays_());
                let m = M::from_row_array_(m.into_row_array_());
                let m = M::from_col_array_(m.into_col_array_());
                let o = m.relayout();
                let o = <M::Other as MatOps<N, NN>>::from_row_array_(o.into_row_array_());
                let back: M = <M::Other as MatOps<N, NN>>::relayout(o);
                back.transposed_().transposed_()
            });
            for i in 0..n { for j in 0..n { want!("round trip", format!("m[{}][{}]", i, j), r.at(i, j).id, ids[i][j]); } }
        }
    }
    all_dropped_once(cx, &|| format!("{} conversion #{} after dropping every output", name, idx))
}

// ------------------------------------------------------------------------------------------------
// (c) views
// ------------------------------------------------------------------------------------------------

fn addr<T>(r: &T) -> usize {
    r as *const T as usize
}

/// idx = kind * 2n + (mutable? n : 0) + k
fn vec_view_case<V: VecOps<N>, const N: usize>(idx: u64, cx: &mut Cx) -> CaseResult {
    ledger::reset();
    let n = N;
    let name = V::NAME;
    let k = (idx as usize) % n;
    let mutable = ((idx as usize) / n) % 2 == 1;
    let kind = (idx as usize) / (2 * n);
    cx.nontrivial();
    let mut v = V::build(&mut |q| ledger::fresh(300 + q as u32));
    let sz = std::mem::size_of::<Tracked>();
    let base = addr(&v);
    check_eq!(cx, std::mem::size_of::<V>(), n * sz, "{}: size_of differs from {} elements", name, n);
    check_eq!(cx, v.elem_count_(), n, "{}::elem_count", name);
    for q in 0..n {
        check_eq!(cx, addr(v.fld(q)), base + q * sz, "{}: field {} is not element {} of the value's storage", name, q, q);
    }
    if !mutable {
        let what = VIEW_KINDS[kind];
        cx.label("shared view");
        sample!(cx, "{} view {} checked against the fields", name, what);
        let before = ledger::totals();
        let w = v.view(kind);
        check_eq!(cx, w.slice.as_ptr() as usize, base, "{} {}: the slice does not start at the value's own storage", name, what);
        check_eq!(cx, w.slice.len(), n, "{} {}: length", name, what);
        check_eq!(cx, w.refs.len(), n, "{} {}: number of items", name, what);
        for q in 0..w.slice.len().min(n) {
            check_eq!(cx, addr(&w.slice[q]), addr(v.fld(q)), "{} {}: entry {} does not alias field {}", name, what, q, q);
            check_eq!(cx, w.slice[q].id, v.fld(q).id, "{} {}: entry {} is not element {}", name, what, q, q);
        }
        for q in 0..w.refs.len().min(n) {
            check_eq!(cx, addr(w.refs[q]), addr(v.fld(q)), "{} {}: item {} does not alias field {}", name, what, q, q);
        }
        check_eq!(cx, ledger::totals(), before, "{} {}: a shared view must not create/clone/drop/observe elements", name, what);
    } else {
        let what = VIEW_MUT_KINDS[kind];
        cx.label("mutable view (write-through)");
        sample!(cx, "{} view {}: write through entry {}", name, what, k);
        let field_addrs: Vec<usize> = (0..n).map(|q| addr(v.fld(q))).collect();
        let field_ids: Vec<u32> = (0..n).map(|q| v.fld(q).id).collect();
        let before = ledger::totals();
        {
            let s = v.view_mut(kind);
            check_eq!(cx, s.as_ptr() as usize, base, "{} {}: the slice does not start at the value's own storage", name, what);
            check_eq!(cx, s.len(), n, "{} {}: length", name, what);
            for q in 0..s.len().min(n) {
                check_eq!(cx, addr(&s[q]), field_addrs[q], "{} {}: entry {} does not alias field {}", name, what, q, q);
                check_eq!(cx, s[q].id, field_ids[q], "{} {}: entry {} is not element {}", name, what, q, q);
            }
        }
        if kind >= 4 {
            let got = v.iter_mut_addrs(kind);
            check_eq!(cx, got, field_addrs, "{} {}: items do not alias the fields in declaration order", name, what);
        }
        check_eq!(cx, ledger::totals(), before, "{} {}: taking a view must not create/clone/drop/observe elements", name, what);
        // write through the view, read through the field
        let fresh1 = ledger::fresh(900);
        let id1 = fresh1.id;
        let old = {
            let s = v.view_mut(kind);
            check!(cx, k < s.len(), "{} {}: entry {} missing", name, what, k);
            std::mem::replace(&mut s[k], fresh1)
        };
        check_eq!(cx, old.id, field_ids[k], "{} {}: replacing entry {} returned another element", name, what, k);
        ledger::yielded(&old);
        ledger::consume(old);
        for q in 0..n {
            let want = if q == k { id1 } else { field_ids[q] };
            check_eq!(cx, v.fld(q).id, want, "{} {}: after writing entry {}, field {}", name, what, k, q);
        }
        // write through the field, read through the view
        let fresh2 = ledger::fresh(901);
        let id2 = fresh2.id;
        let old = std::mem::replace(v.fld_mut(k), fresh2);
        check_eq!(cx, old.id, id1, "{}: field {} did not hold the element written through {}", name, k, what);
        ledger::yielded(&old);
        ledger::consume(old);
        {
            let s = v.view_mut(kind);
            for q in 0..s.len().min(n) {
                let want = if q == k { id2 } else { field_ids[q] };
                check_eq!(cx, s[q].id, want, "{} {}: after writing field {}, entry {}", name, what, k, q);
            }
        }
        let w = v.view(kind);
        check_eq!(cx, w.slice[k].id, id2, "{} {}: after writing field {}, shared entry {}", name, VIEW_KINDS[kind], k, k);
    }
    settle_strict(cx, &|| format!("{} views", name))?;
    drop(v);
    all_dropped_once(cx, &|| format!("{} views, after dropping the vector", name))
}

/// idx = k (entry written through the mutable slice)
fn mat_view_case<M: MatOps<N, NN>, const N: usize, const NN: usize>(idx: u64, cx: &mut Cx) -> CaseResult {
    ledger::reset();
    let n = N;
    let name = M::NAME;
    let k = idx as usize % NN;
    let what = if M::ROW_MAJOR { "as_row_slice" } else { "as_col_slice" };
    cx.nontrivial();
    cx.label(if M::ROW_MAJOR { "as_row_slice: entry i*n+j = m[i][j]" } else { "as_col_slice: entry j*n+i = m[i][j]" });
    let mut m = M::build(&mut |i, j| ledger::fresh(400 + (10 * i + j) as u32));
    // entry q of the native slice is element (i, j) with
    let ij = |q: usize| if M::ROW_MAJOR { (q / n, q % n) } else { (q % n, q / n) };
    let sz = std::mem::size_of::<Tracked>();
    let base = m.self_addr();
    sample!(cx, "{} {} / mut / ptr variants, write through entry {}", name, what, k);
    check_eq!(cx, M::size_of_self(), NN * sz, "{}: size_of differs from {} elements", name, NN);
    check_eq!(cx, addr(m.at(0, 0)), base, "{}: element (0,0) is not at the start of the value", name);
    let ids: Vec<u32> = (0..NN).map(|q| { let (i, j) = ij(q); m.at(i, j).id }).collect();
    let addrs: Vec<usize> = (0..NN).map(|q| { let (i, j) = ij(q); addr(m.at(i, j)) }).collect();
    let before = ledger::totals();
    {
        let s = m.native_slice();
        check_eq!(cx, s.as_ptr() as usize, base, "{} {}: the slice does not start at the value's own storage", name, what);
        check_eq!(cx, s.len(), NN, "{} {}: length", name, what);
        for q in 0..s.len().min(NN) {
            check_eq!(cx, addr(&s[q]), addrs[q], "{} {}: entry {} does not alias element {:?}", name, what, q, ij(q));
            check_eq!(cx, s[q].id, ids[q], "{} {}: entry {} is not element {:?}", name, what, q, ij(q));
        }
    }
    check_eq!(cx, m.native_ptr() as usize, base, "{} as_{{row,col}}_ptr", name);
    check_eq!(cx, m.native_ptr_mut() as usize, base, "{} as_mut_{{row,col}}_ptr", name);
    {
        let s = m.native_slice_mut();
        check_eq!(cx, s.as_ptr() as usize, base, "{} mutable {}: the slice does not start at the value's own storage", name, what);
        check_eq!(cx, s.len(), NN, "{} mutable {}: length", name, what);
        for q in 0..s.len().min(NN) {
            check_eq!(cx, addr(&s[q]), addrs[q], "{} mutable {}: entry {} does not alias element {:?}", name, what, q, ij(q));
        }
    }
    check_eq!(cx, ledger::totals(), before, "{} {}: taking a view must not create/clone/drop/observe elements", name, what);
    // write-through, both directions
    let fresh1 = ledger::fresh(900);
    let id1 = fresh1.id;
    let old = {
        let s = m.native_slice_mut();
        check!(cx, k < s.len(), "{} mutable {}: entry {} missing", name, what, k);
        std::mem::replace(&mut s[k], fresh1)
    };
    check_eq!(cx, old.id, ids[k], "{} mutable {}: replacing entry {} returned another element", name, what, k);
    ledger::yielded(&old);
    ledger::consume(old);
    for q in 0..NN {
        let (i, j) = ij(q);
        check_eq!(cx, m.at(i, j).id, if q == k { id1 } else { ids[q] }, "{} mutable {}: after writing entry {}, element ({},{})", name, what, k, i, j);
    }
    let fresh2 = ledger::fresh(901);
    let id2 = fresh2.id;
    let (ki, kj) = ij(k);
    let old = std::mem::replace(m.at_mut(ki, kj), fresh2);
    ledger::yielded(&old);
    ledger::consume(old);
    {
        let s = m.native_slice();
        for q in 0..s.len().min(NN) {
            check_eq!(cx, s[q].id, if q == k { id2 } else { ids[q] }, "{} {}: after writing element ({},{}), entry {}", name, what, ki, kj, q);
        }
    }
    settle_strict(cx, &|| format!("{} views", name))?;
    drop(m);
    all_dropped_once(cx, &|| format!("{} views, after dropping the matrix", name))
}

// ------------------------------------------------------------------------------------------------
// (b') conversions between vector types that take their operands apart: (smaller vector, scalar) -> vector,
// larger vector -> smaller vector (the trailing elements are dropped exactly once), kind changes
// ------------------------------------------------------------------------------------------------

const CROSS_CONV_TOTAL: u64 = 22;

fn cross_conv_case(idx: u64, cx: &mut Cx) -> CaseResult {
    ledger::reset();
    cx.nontrivial();
    let mk = |k: usize| ledger::fresh(2000 + k as u32);
    // $e consumes the freshly built operands; $ids reads the element ids of the result in order; the first
    // $kept source elements must be in the result, the others dropped exactly once by the conversion
    macro_rules! conv {
        ($what:expr, $n_src:expr, $kept:expr, $e:expr, |$r:ident| $ids:expr) => {{
            cx.label($what);
            sample!(cx, "{} on tracked elements #0..#{}", $what, $n_src - 1);
            let before = ledger::totals();
            let $r = $e;
            let after = ledger::totals();
            cx.count();
            let dropped_in_transit: u32 = ($n_src - $kept) as u32;
            if after.ids != before.ids + $n_src as usize || after.drops != before.drops + dropped_in_transit || after.clones != before.clones || after.observed != before.observed {
                fail!("{}: expected {} elements created by the harness and {} (the discarded ones) dropped by the conversion, nothing cloned or observed: before {:?}, after {:?}", $what, $n_src, dropped_in_transit, before, after);
            }
            settle_strict(cx, &|| format!("{}", $what))?;
            let ids: Vec<u32> = $ids;
            check_eq!(cx, ids, (0..$kept as u32).collect::<Vec<u32>>(), "{}: element ids of the result, in order", $what);
            drop($r);
            all_dropped_once(cx, &|| format!("{}, after dropping the result", $what))?;
        }};
    }
    match idx {
        0 => conv!("Vec3::from((Vec2, z))", 3, 3, Vec3::from((Vec2 { x: mk(0), y: mk(1) }, mk(2))), |r| vec![r.x.id, r.y.id, r.z.id]),
        1 => conv!("Vec4::from((Vec3, w))", 4, 4, Vec4::from((Vec3 { x: mk(0), y: mk(1), z: mk(2) }, mk(3))), |r| vec![r.x.id, r.y.id, r.z.id, r.w.id]),
        2 => conv!("Extent3::from((Extent2, d))", 3, 3, Extent3::from((Extent2 { w: mk(0), h: mk(1) }, mk(2))), |r| vec![r.w.id, r.h.id, r.d.id]),
        3 => conv!("Rgba::from((Rgb, a))", 4, 4, Rgba::from((Rgb { r: mk(0), g: mk(1), b: mk(2) }, mk(3))), |r| vec![r.r.id, r.g.id, r.b.id, r.a.id]),
        4 => conv!("Uvw::from((Uv, w))", 3, 3, Uvw::from((Uv { u: mk(0), v: mk(1) }, mk(2))), |r| vec![r.u.id, r.v.id, r.w.id]),
        5 => conv!("Into::<Vec3>::into((Vec2, z))", 3, 3, { let r: Vec3<Tracked> = (Vec2 { x: mk(0), y: mk(1) }, mk(2)).into(); r }, |r| vec![r.x.id, r.y.id, r.z.id]),
        6 => conv!("Into::<Vec4>::into((Vec3, w))", 4, 4, { let r: Vec4<Tracked> = (Vec3 { x: mk(0), y: mk(1), z: mk(2) }, mk(3)).into(); r }, |r| vec![r.x.id, r.y.id, r.z.id, r.w.id]),
        7 => conv!("Vec3::from(Vec4)", 4, 3, Vec3::from(Vec4 { x: mk(0), y: mk(1), z: mk(2), w: mk(3) }), |r| vec![r.x.id, r.y.id, r.z.id]),
        8 => conv!("Vec2::from(Vec4)", 4, 2, Vec2::from(Vec4 { x: mk(0), y: mk(1), z: mk(2), w: mk(3) }), |r| vec![r.x.id, r.y.id]),
        9 => conv!("Vec2::from(Vec3)", 3, 2, Vec2::from(Vec3 { x: mk(0), y: mk(1), z: mk(2) }), |r| vec![r.x.id, r.y.id]),
        10 => conv!("Vec4::xyz()", 4, 3, Vec4 { x: mk(0), y: mk(1), z: mk(2), w: mk(3) }.xyz(), |r| vec![r.x.id, r.y.id, r.z.id]),
        11 => conv!("Vec4::xy()", 4, 2, Vec4 { x: mk(0), y: mk(1), z: mk(2), w: mk(3) }.xy(), |r| vec![r.x.id, r.y.id]),
        12 => conv!("Vec3::xy()", 3, 2, Vec3 { x: mk(0), y: mk(1), z: mk(2) }.xy(), |r| vec![r.x.id, r.y.id]),
        13 => conv!("Rgba::rgb()", 4, 3, Rgba { r: mk(0), g: mk(1), b: mk(2), a: mk(3) }.rgb(), |r| vec![r.r.id, r.g.id, r.b.id]),
        14 => conv!("Rgb::from(Rgba)", 4, 3, Rgb::from(Rgba { r: mk(0), g: mk(1), b: mk(2), a: mk(3) }), |r| vec![r.r.id, r.g.id, r.b.id]),
        15 => conv!("Vec4::from(Rgba)", 4, 4, Vec4::from(Rgba { r: mk(0), g: mk(1), b: mk(2), a: mk(3) }), |r| vec![r.x.id, r.y.id, r.z.id, r.w.id]),
        16 => conv!("Rgba::from(Vec4)", 4, 4, Rgba::from(Vec4 { x: mk(0), y: mk(1), z: mk(2), w: mk(3) }), |r| vec![r.r.id, r.g.id, r.b.id, r.a.id]),
        17 => conv!("Vec3::from(Extent3)", 3, 3, Vec3::from(Extent3 { w: mk(0), h: mk(1), d: mk(2) }), |r| vec![r.x.id, r.y.id, r.z.id]),
        18 => conv!("Extent2::from(Vec2)", 2, 2, Extent2::from(Vec2 { x: mk(0), y: mk(1) }), |r| vec![r.w.id, r.h.id]),
        19 => conv!("Vec3::from(Rgb)", 3, 3, Vec3::from(Rgb { r: mk(0), g: mk(1), b: mk(2) }), |r| vec![r.x.id, r.y.id, r.z.id]),
        20 => conv!("Uvw::from(Vec3)", 3, 3, Uvw::from(Vec3 { x: mk(0), y: mk(1), z: mk(2) }), |r| vec![r.u.id, r.v.id, r.w.id]),
        _ => conv!("Uv::from(Vec2)", 2, 2, Uv::from(Vec2 { x: mk(0), y: mk(1) }), |r| vec![r.u.id, r.v.id]),
    }
    Ok(())
}

// ------------------------------------------------------------------------------------------------

pub fn property() -> Property {
    let mut checks = Vec::new();
    const RANDOM_QUICK: u64 = 4_000; // x 13 types = 52 000 histories
    const RANDOM_THOROUGH: u64 = 160_000; // x 13 types = 2 080 000 histories (40 x quick)
    macro_rules! per_vec {
        ($V:ident, $n:expr, $table:expr, $random:expr, $conv:expr, $view:expr) => {{
            let total = table_total($n);
            checks.push(Check {
                name: $table,
                about: "EXHAUSTIVE IntoIter table: every cursor state (start,end), reached front-first / back-first / alternating, x 3 consumer keep/drop policies x {len,size_hint,next,next_back,{:?},hash,==twin,drop-now}, then drop; deque model + ownership ledger (each element yielded once XOR dropped once, none leaked, no read of a yielded element)",
                kind: Kind::Index { total, quick: total, thorough: total, f: table_case::<$V<Tracked>, $n> },
            });
            checks.push(Check {
                name: $random,
                about: "random IntoIter histories (length <= 2n+8) over {len,size_hint,next,next_back,{:?},hash,==twin,drop-now} with tape-chosen keep/drop of each yielded element; same oracle as the table",
                kind: Kind::Tape { len: random_tape_len($n), quick: RANDOM_QUICK, thorough: RANDOM_THOROUGH, f: random_case::<$V<Tracked>, $n> },
            });
            let total = vec_conv_total($n);
            checks.push(Check {
                name: $conv,
                about: "From<[T;N]>, into_array, into_tuple, From<tuple>, into_iter().collect() (+rev), map (identity / consuming), zip, map2, map3, round trips, from_iter with every source length 0..=2n+2 (tail Default-filled, surplus never stored), from_slice likewise (u32 elements): id at position k as documented, nothing cloned/dropped/observed in transit, nothing leaked",
                kind: Kind::Index { total, quick: total, thorough: total, f: vec_conv_case::<$V<Tracked>, $n> },
            });
            let total = 6 * 2 * $n;
            checks.push(Check {
                name: $view,
                about: "as_slice/Deref/AsRef/Borrow/iter/(&v).into_iter() and the six mutable counterparts: pointer identity with the value's own storage, length = element count, entry k aliases field k, write-through in both directions at every k",
                kind: Kind::Index { total, quick: total, thorough: total, f: vec_view_case::<$V<Tracked>, $n> },
            });
        }};
    }
    per_vec!(Vec2, 2, "intoiter-table-vec2", "intoiter-random-vec2", "conv-vec2", "views-vec2");
    per_vec!(Vec3, 3, "intoiter-table-vec3", "intoiter-random-vec3", "conv-vec3", "views-vec3");
    per_vec!(Vec4, 4, "intoiter-table-vec4", "intoiter-random-vec4", "conv-vec4", "views-vec4");
    per_vec!(Vec8, 8, "intoiter-table-vec8", "intoiter-random-vec8", "conv-vec8", "views-vec8");
    per_vec!(Vec16, 16, "intoiter-table-vec16", "intoiter-random-vec16", "conv-vec16", "views-vec16");
    per_vec!(Vec32, 32, "intoiter-table-vec32", "intoiter-random-vec32", "conv-vec32", "views-vec32");
    per_vec!(Vec64, 64, "intoiter-table-vec64", "intoiter-random-vec64", "conv-vec64", "views-vec64");
    per_vec!(Extent2, 2, "intoiter-table-extent2", "intoiter-random-extent2", "conv-extent2", "views-extent2");
    per_vec!(Extent3, 3, "intoiter-table-extent3", "intoiter-random-extent3", "conv-extent3", "views-extent3");
    per_vec!(Rgb, 3, "intoiter-table-rgb", "intoiter-random-rgb", "conv-rgb", "views-rgb");
    per_vec!(Rgba, 4, "intoiter-table-rgba", "intoiter-random-rgba", "conv-rgba", "views-rgba");
    per_vec!(Uv, 2, "intoiter-table-uv", "intoiter-random-uv", "conv-uv", "views-uv");
    per_vec!(Uvw, 3, "intoiter-table-uvw", "intoiter-random-uvw", "conv-uvw", "views-uvw");
    // regimes beyond {next, next_back, len, size_hint, observers, drop}: the whole iterator surface and pairs of iterators
    const EXT_RANDOM_QUICK: u64 = 1_500; // x 13 types
    const EXT_RANDOM_THOROUGH: u64 = 60_000;
    macro_rules! per_vec_ext {
        ($V:ident, $n:expr, $sfx:literal, $single_q:expr, $pobs_q:expr, $pops_q:expr) => {{
            let total = adapters::single_total($n);
            let q: u64 = $single_q;
            checks.push(Check {
                name: concat!("adapters-table-", $sfx),
                about: "every cursor state (start,end) x every single-operand Iterator/DoubleEndedIterator/ExactSizeIterator method and std adapter (nth, nth_back, find, position, any/all, try_fold, skip, step_by, take, rev, take_while, skip_while, map_while, filter, peekable, enumerate, fuse, map, last, count, max/min, collect, sum, partition, extend, the vector's FromIterator; through by_ref() with the history going on, and BY VALUE: fold, rfold, for_each, last, count, collect, reduce, is_sorted, ..) x argument class (0, 1, rem/2, rem-1, rem, rem+1, rem+7, usize::MAX): results, hand-out order and remaining length equal the std defaults run over a deque model; the ownership ledger balances after every operation (live / yielded once / dropped once) and at the end",
                kind: Kind::Index { total, quick: q.min(total), thorough: (q.saturating_mul(40)).min(total), f: adapters::single_case::<$V<Tracked>, $n> },
            });
            let total = adapters::pair_obs_total($n);
            let q: u64 = $pobs_q;
            checks.push(Check {
                name: concat!("pairs-observers-", $sfx),
                about: "==, != (both operand orders) and hash on PAIRS of consuming iterators in independently chosen cursor states (all state pairs for the small dimensions) x 4 content modes (value-shifted so that equal remaining sequences sit at different cursor positions, identical, aligned with one live element different, constant): == iff the remaining value sequences are equal, equal => equal hashes, no read of a yielded element (ledger), both iterators keep working afterwards",
                kind: Kind::Index { total, quick: q.min(total), thorough: (q.saturating_mul(40)).min(total), f: adapters::pair_obs_case::<$V<Tracked>, $n> },
            });
            let total = adapters::pair_ops_total($n);
            let q: u64 = $pops_q;
            checks.push(Check {
                name: concat!("pairs-adapters-", $sfx),
                about: "two-operand operations on PAIRS of consuming iterators in independently chosen cursor states: zip, chain, flatten (by_ref and by value; nth/next_back/rev/count/last/take with arguments around either and both remaining lengths), Iterator::{eq,ne,cmp,partial_cmp,lt,ge}, mem::swap; same model + ledger oracle as adapters-table",
                kind: Kind::Index { total, quick: q.min(total), thorough: (q.saturating_mul(40)).min(total), f: adapters::pair_ops_case::<$V<Tracked>, $n> },
            });
            checks.push(Check {
                name: concat!("adapters-random-", $sfx),
                about: "random histories (<= 10 operations + a by-value consumer) over the whole alphabet (pulls, every partial operation with tape-chosen argument classes, observers incl. pair ==/hash, swap, FromIterator) on two iterators that start in independent tape-chosen cursor states and are driven independently; same oracle",
                kind: Kind::Tape { len: adapters::EXT_RANDOM_TAPE_LEN, quick: EXT_RANDOM_QUICK, thorough: EXT_RANDOM_THOROUGH, f: adapters::ext_random_case::<$V<Tracked>, $n> },
            });
        }};
    }
    // observers of vectors / views in every format variant, and borrowed sources of FromIterator
    macro_rules! per_vec_obs {
        ($V:ident, $n:expr, $sfx:literal) => {{
            let total = observers::vec_obs_total();
            checks.push(Check {
                name: concat!("observers-vec-", $sfx),
                about: "Debug / Display of the vector, Debug of as_slice(), iter(), &*v, iter_mut(), into_array() and of a fresh into_iter(), x every format specification (plain, #, width, fill, alignment, sign, zero, precision, hex, run-time width/precision, the value twice, nested in Option / tuple / array) x 5 sinks (String, Vec<u8> through io::Write, piece counter, two failing sinks): every element is looked at exactly once per occurrence, in the documented order (Display, views), the texts shown are the elements' values, nothing is cloned or dropped; plus ==, != (through references, Option, arrays) and every hashing route of equal / unequal vectors",
                kind: Kind::Index { total, quick: total, thorough: total, f: observers::vec_obs_case::<$V<Tracked>, $n> },
            });
            let total = sources::split_total($n);
            checks.push(Check {
                name: concat!("sources-split-", $sfx),
                about: "FromIterator / collect() of the vector type fed from BORROWED sources (vec::IntoIter.by_ref(), &mut source, &mut dyn Iterator, sources with exact / (0,None) / lower-only / upper-only size hints, vec_deque by_ref().rev(), two advanced vek IntoIters chained by_ref, the vector's own IntoIter advanced from both ends, by_ref().take(k) with k around n, by_ref().map, by_ref of by_ref) holding 0..=2n+2 elements (fewer / exactly as many / more than needed), 1-3 rounds on the same source: each vector holds the next min(n, remaining) elements in order with a Default tail, the source afterwards holds exactly the elements not placed (len/size_hint, hand-out counter, draining), no source element is dropped / lost / cloned / observed, everything is dropped exactly once at the end",
                kind: Kind::Index { total, quick: total, thorough: total, f: sources::split_case::<$V<Tracked>, $n> },
            });
        }};
    }
    per_vec_obs!(Vec2, 2, "vec2");
    per_vec_obs!(Vec3, 3, "vec3");
    per_vec_obs!(Vec4, 4, "vec4");
    per_vec_obs!(Vec8, 8, "vec8");
    per_vec_obs!(Vec16, 16, "vec16");
    per_vec_obs!(Vec32, 32, "vec32");
    per_vec_obs!(Vec64, 64, "vec64");
    per_vec_obs!(Extent2, 2, "extent2");
    per_vec_obs!(Extent3, 3, "extent3");
    per_vec_obs!(Rgb, 3, "rgb");
    per_vec_obs!(Rgba, 4, "rgba");
    per_vec_obs!(Uv, 2, "uv");
    per_vec_obs!(Uvw, 3, "uvw");
    const ALL: u64 = u64::MAX;
    // the unwinding dimension: user closures / element impls that panic at their k-th call
    macro_rules! per_vec_unwind {
        ($V:ident, $n:expr, $sfx:literal, $q:expr) => {{
            let total = unwind::unwind_iter_total($n);
            let q: u64 = $q;
            checks.push(Check {
                name: concat!("unwind-iter-", $sfx),
                about: "every operation of the adapters tables (by-ref and by-value consumers, std adapters, zip / chain / flatten pairs, element-comparing consumers, the Debug / == / hash observers, the vector's FromIterator) from every cursor state with the user closure or the element's own trait impl PANICKING at its k-th call, k from the first to the last call (the number of calls is measured on the deque model): the panic propagates (vkit::catch), the surviving iterators are used up and dropped, then the ledger shows no element dropped or handed out twice and no read of a yielded / dropped element; leaked elements are allowed and only labelled",
                kind: Kind::Index { total, quick: q.min(total), thorough: (q.saturating_mul(40)).min(total), f: unwind::unwind_iter_case::<$V<Tracked>, $n> },
            });
            let total = unwind::vec_unwind_total($n);
            checks.push(Check {
                name: concat!("unwind-vec-", $sfx),
                about: "map / map2 / map3 / reduce / reduce_min / reduce_max of the vector, FromIterator from owned and borrowed sources (panicking Default and panicking next), Display / {:#?} / == / hash / {:?} of as_slice with a panicking element impl, into_iter().map(f).collect::<V>(), with the panic at every call k: the panic propagates, no element is dropped twice or read after it was moved out; leaks allowed",
                kind: Kind::Index { total, quick: total, thorough: total, f: unwind::vec_unwind_case::<$V<Tracked>, $n> },
            });
        }};
    }
    per_vec_unwind!(Vec2, 2, "vec2", ALL);
    per_vec_unwind!(Vec3, 3, "vec3", ALL);
    per_vec_unwind!(Vec4, 4, "vec4", ALL);
    per_vec_unwind!(Vec8, 8, "vec8", 40_000);
    per_vec_unwind!(Vec16, 16, "vec16", 30_000);
    per_vec_unwind!(Vec32, 32, "vec32", 20_000);
    per_vec_unwind!(Vec64, 64, "vec64", 16_000);
    per_vec_unwind!(Extent2, 2, "extent2", ALL);
    per_vec_unwind!(Extent3, 3, "extent3", ALL);
    per_vec_unwind!(Rgb, 3, "rgb", ALL);
    per_vec_unwind!(Rgba, 4, "rgba", ALL);
    per_vec_unwind!(Uv, 2, "uv", ALL);
    per_vec_unwind!(Uvw, 3, "uvw", ALL);
    // element destructors that panic (droppanic.rs)
    macro_rules! per_vec_droppanic {
        ($V:ident, $n:expr, $sfx:literal, $q:expr) => {{
            let total = droppanic::iter_total($n);
            let q: u64 = $q;
            checks.push(Check {
                name: concat!("droppanic-iter-", $sfx),
                about: "drop of the consuming iterator with an element whose DESTRUCTOR PANICS (once, only when dropped by the container): every cursor state (start,end) x {front pulls first, back pulls first, alternating} x position of the panicking element (every live position, every yielded position, none) x consumer keeps / drops what it pulled: the destructor runs iff the element is live, only its panic comes out, no element is dropped twice (the panicking one included), no yielded element is touched; without a panic every element is dropped exactly once; whether the not yet dropped live elements are dropped or leaked after the panic is labelled, not judged",
                kind: Kind::Index { total, quick: q.min(total), thorough: total, f: droppanic::iter_case::<$V<Tracked>, $n> },
            });
            checks.push(Check {
                name: concat!("droppanic-history-", $sfx),
                about: "random histories (<= 8 steps of next / next_back / nth / nth_back / len with arguments 0, rem/2, rem-1, rem+1, then drop / count() / last() / by-value nth / rev().count()) with the destructor of a tape-chosen element armed all along: it panics inside nth / nth_back (the iterator survives and goes on), inside the by-value consumers (the iterator is dropped while unwinding) or inside the iterator's drop; same at-most-once oracle",
                kind: Kind::Tape { len: droppanic::HISTORY_TAPE_LEN, quick: 1_200, thorough: 48_000, f: droppanic::history_case::<$V<Tracked>, $n> },
            });
            let total = droppanic::vec_total($n);
            checks.push(Check {
                name: concat!("droppanic-conv-", $sfx),
                about: "drop of the vector, of From<[T;N]> / into_array / into_tuple / From<tuple> / map / zip / map2 / map3 results, FromIterator (overwriting its Defaults) from vek's own IntoIter (also reversed, also advanced and borrowed), from owned and borrowed std sources with n+2 and n-1 elements, a chain of conversions, two iterators dropped together, x every element of the case (the caller's and the Defaults vek makes) having the panicking destructor: same at-most-once oracle, exactly once when nothing panics",
                kind: Kind::Index { total, quick: total, thorough: total, f: droppanic::vec_case::<$V<Tracked>, $n> },
            });
        }};
    }
    per_vec_droppanic!(Vec2, 2, "vec2", ALL);
    per_vec_droppanic!(Vec3, 3, "vec3", ALL);
    per_vec_droppanic!(Vec4, 4, "vec4", ALL);
    per_vec_droppanic!(Vec8, 8, "vec8", ALL);
    per_vec_droppanic!(Vec16, 16, "vec16", ALL);
    per_vec_droppanic!(Vec32, 32, "vec32", ALL);
    per_vec_droppanic!(Vec64, 64, "vec64", 120_000);
    per_vec_droppanic!(Extent2, 2, "extent2", ALL);
    per_vec_droppanic!(Extent3, 3, "extent3", ALL);
    per_vec_droppanic!(Rgb, 3, "rgb", ALL);
    per_vec_droppanic!(Rgba, 4, "rgba", ALL);
    per_vec_droppanic!(Uv, 2, "uv", ALL);
    per_vec_droppanic!(Uvw, 3, "uvw", ALL);
    checks.push(Check {
        name: "droppanic-conv-across",
        about: "the 22 conversions between vector types (From<(smaller, scalar)>, shrinking From / xyz() / xy() / rgb(), kind changes) then drop of the result, x every source element having the panicking destructor (the shrinking conversions run it themselves on the discarded elements): same at-most-once oracle",
        kind: Kind::Index { total: droppanic::ACROSS_TOTAL, quick: droppanic::ACROSS_TOTAL, thorough: droppanic::ACROSS_TOTAL, f: droppanic::across_case },
    });
    macro_rules! per_mat_droppanic {
        ($M:ty, $n:expr, $nn:expr, $name:expr) => {{
            let total = droppanic::mat_total($nn);
            checks.push(Check {
                name: $name,
                about: "drop of the matrix and of the results of {from,into}_{row,col}_array(s), transposed, transpose, layout change, map, new, diagonal (discards the off-diagonal elements), map_rows|map_cols, x every element having the panicking destructor: same at-most-once oracle, exactly once when nothing panics",
                kind: Kind::Index { total, quick: total, thorough: total, f: droppanic::mat_case::<$M, $n, $nn> },
            });
        }};
    }
    per_mat_droppanic!(rm::Mat2<Tracked>, 2, 4, "droppanic-row-mat2");
    per_mat_droppanic!(cm::Mat2<Tracked>, 2, 4, "droppanic-col-mat2");
    per_mat_droppanic!(rm::Mat3<Tracked>, 3, 9, "droppanic-row-mat3");
    per_mat_droppanic!(cm::Mat3<Tracked>, 3, 9, "droppanic-col-mat3");
    per_mat_droppanic!(rm::Mat4<Tracked>, 4, 16, "droppanic-row-mat4");
    per_mat_droppanic!(cm::Mat4<Tracked>, 4, 16, "droppanic-col-mat4");
    per_vec_ext!(Vec2, 2, "vec2", ALL, ALL, ALL);
    per_vec_ext!(Vec3, 3, "vec3", ALL, ALL, ALL);
    per_vec_ext!(Vec4, 4, "vec4", ALL, ALL, ALL);
    per_vec_ext!(Vec8, 8, "vec8", ALL, ALL, 15_000);
    per_vec_ext!(Vec16, 16, "vec16", ALL, 20_000, 10_000);
    per_vec_ext!(Vec32, 32, "vec32", 15_000, 10_000, 6_000);
    per_vec_ext!(Vec64, 64, "vec64", 10_000, 6_000, 4_000);
    per_vec_ext!(Extent2, 2, "extent2", ALL, ALL, ALL);
    per_vec_ext!(Extent3, 3, "extent3", ALL, ALL, ALL);
    per_vec_ext!(Rgb, 3, "rgb", ALL, ALL, ALL);
    per_vec_ext!(Rgba, 4, "rgba", ALL, ALL, ALL);
    per_vec_ext!(Uv, 2, "uv", ALL, ALL, ALL);
    per_vec_ext!(Uvw, 3, "uvw", ALL, ALL, ALL);
    macro_rules! per_mat {
        ($M:ty, $n:expr, $nn:expr, $conv:expr, $view:expr) => {{
            checks.push(Check {
                name: $conv,
                about: "{into,from}_{row,col}_array(s), transposed, transpose, layout conversion, new, map (identity / consuming), map2, map_rows/map_cols, diagonal, round trips, against a matrix built through the public rows/cols fields: row arrays list m[i][j] at i*n+j, column arrays at j*n+i; nothing cloned/dropped/observed in transit, nothing leaked",
                kind: Kind::Index { total: MAT_CONV_TOTAL, quick: MAT_CONV_TOTAL, thorough: MAT_CONV_TOTAL, f: mat_conv_case::<$M, $n, $nn> },
            });
            checks.push(Check {
                name: $view,
                about: "as_row_slice (row-major) / as_col_slice (column-major), mut and ptr variants: start at the value's own storage, n*n entries, entry k aliases the element the layout puts there, write-through in both directions at every k",
                kind: Kind::Index { total: $nn, quick: $nn, thorough: $nn, f: mat_view_case::<$M, $n, $nn> },
            });
        }};
    }
    macro_rules! per_mat_obs {
        ($M:ty, $n:expr, $nn:expr, $name:expr) => {{
            let total = observers::mat_obs_total();
            checks.push(Check {
                name: $name,
                about: "Debug / Display of the matrix and Debug of its native slice view x every format specification x 5 sinks: every element is looked at exactly once per occurrence; Display lists m[i][j] row by row whatever the storage layout (documented), the slice view in storage order; nothing cloned or dropped",
                kind: Kind::Index { total, quick: total, thorough: total, f: observers::mat_obs_case::<$M, $n, $nn> },
            });
        }};
    }
    macro_rules! per_mat_unwind {
        ($M:ty, $n:expr, $nn:expr, $name:expr) => {{
            let total = unwind::mat_unwind_total($nn);
            checks.push(Check {
                name: $name,
                about: "map / map2 / map_rows|map_cols of the matrix with a closure panicking at its k-th call, Display / {:#?} with a panicking element impl, every k: the panic propagates, no element is dropped twice or read after it was moved out; leaks allowed",
                kind: Kind::Index { total, quick: total, thorough: total, f: unwind::mat_unwind_case::<$M, $n, $nn> },
            });
        }};
    }
    checks.push(Check {
        name: "conv-across-vector-types",
        about: "conversions that take vectors apart or change their kind: From<(smaller vector, scalar)> for Vec3 / Vec4 / Extent3 / Rgba / Uvw (also through Into), shrinking From<Vec4> / From<Vec3> / xyz() / xy() / rgb(), kind changes Vec <-> Rgba / Rgb / Extent / Uv / Uvw: the kept elements are MOVED (same ids, in order, nothing cloned or observed), the discarded trailing elements are dropped exactly once by the conversion, nothing is dropped twice or leaked when the result is dropped",
        kind: Kind::Index { total: CROSS_CONV_TOTAL, quick: CROSS_CONV_TOTAL, thorough: CROSS_CONV_TOTAL, f: cross_conv_case },
    });
    checks.push(Check {
        name: "element-layouts",
        about: "element types with an unusual layout (zero-sized with drop glue, one byte, align 64, 72 bytes; plus (), [u64; 0], PhantomData) x 13 vector types x {shared views, mutable views, every (front, back) split of the consuming iterator, arrays / tuples, FromIterator with source length 0..=n+2, map / zip, unit elements} and x 6 matrix types x {flat arrays, nested arrays, transpose / map, lines / Debug / diagonal}: every view has one entry per element inside the value's own storage, position k holds element k, every constructed element is dropped exactly once (counted by the element type itself)",
        kind: Kind::Index { total: zst::TOTAL, quick: zst::TOTAL, thorough: zst::TOTAL, f: zst::layout_case },
    });
    per_mat_unwind!(rm::Mat2<Tracked>, 2, 4, "unwind-row-mat2");
    per_mat_unwind!(cm::Mat2<Tracked>, 2, 4, "unwind-col-mat2");
    per_mat_unwind!(rm::Mat3<Tracked>, 3, 9, "unwind-row-mat3");
    per_mat_unwind!(cm::Mat3<Tracked>, 3, 9, "unwind-col-mat3");
    per_mat_unwind!(rm::Mat4<Tracked>, 4, 16, "unwind-row-mat4");
    per_mat_unwind!(cm::Mat4<Tracked>, 4, 16, "unwind-col-mat4");
    per_mat_obs!(rm::Mat2<Tracked>, 2, 4, "observers-row-mat2");
    per_mat_obs!(cm::Mat2<Tracked>, 2, 4, "observers-col-mat2");
    per_mat_obs!(rm::Mat3<Tracked>, 3, 9, "observers-row-mat3");
    per_mat_obs!(cm::Mat3<Tracked>, 3, 9, "observers-col-mat3");
    per_mat_obs!(rm::Mat4<Tracked>, 4, 16, "observers-row-mat4");
    per_mat_obs!(cm::Mat4<Tracked>, 4, 16, "observers-col-mat4");
    per_mat!(rm::Mat2<Tracked>, 2, 4, "conv-row-mat2", "views-row-mat2");
    per_mat!(cm::Mat2<Tracked>, 2, 4, "conv-col-mat2", "views-col-mat2");
    per_mat!(rm::Mat3<Tracked>, 3, 9, "conv-row-mat3", "views-row-mat3");
    per_mat!(cm::Mat3<Tracked>, 3, 9, "conv-col-mat3", "views-col-mat3");
    per_mat!(rm::Mat4<Tracked>, 4, 16, "conv-row-mat4", "views-row-mat4");
    per_mat!(cm::Mat4<Tracked>, 4, 16, "conv-col-mat4", "views-col-mat4");
    Property {
        id: "C18",
        rule: "iterator cases are histories over {next, next_back, len, size_hint, {:?}, ==twin, hash, drop-now} with a keep/drop decision of the consumer for every yielded element: the table enumerates every (start,end) x {front-first, back-first, alternating} x 3 consumer policies x 8 operations for each of the 13 vector types, random histories come from proptest byte tapes; a history is non-trivial when it pulls from both ends and the iterator is dropped with >= 1 element still inside, or when it formats/compares/hashes after >= 1 pull; conversion and view cases (finite, fully enumerated) are all non-trivial: every element is a distinct Tracked id; distinct = distinct index / consumed tape prefix per check; adapters-table / pairs-adapters / adapters-random cases are histories over the extended alphabet (every Iterator / DoubleEndedIterator / ExactSizeIterator method and std adapter, by_ref and by value, argument classes 0, 1, rem/2, rem-1, rem, rem+1, rem+7, usize::MAX relative to the remaining length at that moment; for chain/flatten also relative to both lengths): adapters-table enumerates cursor state x (operation, argument class) (all states for n <= 16, a seeded sample for n = 32, 64), pairs-observers enumerates state pair x 4 content modes x {==/!=, hash} (all pairs for n <= 8), pairs-adapters state pair x two-operand (operation, argument class) (all pairs for n <= 4); such a case is non-trivial when it executes at least one operation other than next / next_back / len / size_hint, or a pair observer after at least one pull; the Debug observer of these histories is parametrised by (format specification, sink): adapters-table enumerates cursor state x 24 specifications x 5 sinks; observers-vec / observers-mat (kind of value x specification x sink, fully enumerated) and sources-split (12 kinds of borrowed source x source length 0..=2n+2 x 1..3 rounds, fully enumerated) cases are all non-trivial; unwind-iter enumerates cursor state x (operation, reduced argument classes 0, rem/2, rem, rem+1, both, usize::MAX) x panic position k (all states and all k for n <= 4, a seeded sample above; for more than 12 calls the positions are spread from the first to the last), unwind-vec / unwind-mat enumerate kind x k; such a case is non-trivial when the injected panic was raised inside the operation (cases whose operation calls no closure at that state, or whose k lies beyond the last call, are counted as trivial); droppanic-iter enumerates cursor state x 3 ways of reaching it x position of the element whose destructor panics (all of them up to n = 32, a seeded sample of 120 000 of the 418 275 indices for n = 64 in the quick tier; of the yielded positions only the outermost ones and the ones next to the live range are run), droppanic-conv / droppanic-mat / droppanic-conv-across enumerate kind x panicking element, droppanic-history draws histories from the tape; such a case is non-trivial when the armed destructor actually panicked inside code run by vek or by the drop glue of a vek value",
        assumptions: &[
            "rustc, std (arrays, Vec, slices, DefaultHasher) and the proptest runner/shrinker are trusted",
            "the oracle is the thread-local ownership ledger of c18::ledger::Tracked (a plain {id,val} struct, so that reading a stale slot is harmless for the harness) plus a deque model of the iterator; neither calls vek",
            "the consumer marks every element it receives by value as yielded; every other drop is attributed to the container/iterator",
            "vectors and matrices are built and read through their public fields (struct literals, m.rows.<i>.<j>, m.cols.<j>.<i>)",
            "a correct Debug/PartialEq/Hash of IntoIter may only touch live elements; additionally asserted: no panic, an iterator equals its identically-driven twin, equal iterators hash equally; format and hash value are free",
            "the extended iterator checks run the same generic std code (c18::adapters::partial / finish) on vek's iterator and on a model that implements only next, next_back and an exact size_hint over a VecDeque; a correct override of any other method is observationally equal to the std default, so returned values, hand-out order, remaining lengths and which elements were dropped inside the call must agree (in particular nth(n) / nth_back(n) with n >= len() consume everything and return None, as the std docs of nth and advance_by state)",
            "iterator == / != are judged against the remaining VALUE sequences (vek: 'Debug, PartialEq and Hash only consider the elements that weren't yielded'): equal iff same remaining length and pairwise equal values, whatever the cursor positions; != is the negation; both operand orders agree; equal iterators hash equally. Nothing is asserted about the hash value, about hashes of unequal iterators, or about the text of {:?}",
            "formatting a consuming iterator looks at exactly its live elements, once per occurrence of the value in the format string, in order, whatever the flags / nesting / sink (vek: 'Debug, PartialEq and Hash only consider the elements that weren't yielded'); the element texts found in the output (t<val>, written by the element's own Debug) are the remaining values in order; a failing sink may cut this short (prefix). Everything else about the text (names, punctuation, padding, pretty layout) is free",
            "the vector's own Debug is judged as a multiset of elements (field order of {:?} is not documented); Display of vectors in declaration order (documented format), Display of matrices row by row whatever the layout (documented: 'This format doesn't depend on the matrix's storage layout'), the std formatters of slice views / iter() / iter_mut() / arrays in slice order",
            "hashing: only live elements may be looked at; iterators with equal remaining value sequences (and equal vectors) agree on every route (SipHash, a recording hasher's complete call stream, FNV, hash_one, hash_slice of a one-element slice, hash of a tuple) and are one member of a HashSet; nothing is asserted about which or how many live elements a hash looks at, nor about unequal values",
            "FromIterator from a BORROWED source takes exactly min(n, available) elements and leaves all others in the source (reading of 'transfers each element exactly once': an element pulled and then dropped is in neither the vector nor the source, i.e. lost); whether next() is called again after the source returned None is recorded as a label, not judged; sources only report legal size hints (exact, (0,None), (n,None), (0,Some(n+5)))",
            "unwinding: a panic of a user closure or of an element's Default / Debug / Display / PartialEq / Ord / Hash impl is injected by c18::ledger::tick (message c18-injected-panic) and caught with vkit::catch under the driver's panic hook; it must come out of the operation unchanged. Afterwards everything that survived is used up and dropped and the ledger must show no double drop, no second hand-out, no container drop of a handed-out element and no read of a yielded / dropped element (Rust's safety contract holds during unwinding); elements that end up neither yielded nor dropped (leaked) are allowed and labelled. A surviving by-ref iterator must stay memory-safe, but a panic of its own when it is used or dropped after the injected panic is tolerated (labelled, not judged). The number of closure calls T of an iterator operation is measured by running the same generic code on the deque model; for the Hash / == observers, where nothing is promised about which elements are looked at, a fuse that is not reached is not judged. In the unwind-* checks element Drop impls never panic (a second panic during unwinding aborts the process, which no implementation can avoid)",
            "droppanic-*: the element registered under a chosen id panics in its own Drop (message c18-element-destructor-panic) exactly once, only when it is dropped by the container side (vek code, std code running inside a vek / iterator call, drop glue of vek values) and only when the thread is not already panicking; the ledger records the drop BEFORE the panic is raised, so the panicking element counts as dropped once its destructor was entered. Asserted: only that panic comes out, the destructor of an element in the iterator's live range runs when the iterator is dropped and that of a yielded element does not, no element is dropped / handed out twice, no handed-out element is dropped by the container, nothing is read after its drop; when nothing panicked every element is dropped exactly once. NOT asserted: what happens to the elements the container had not yet dropped when the destructor panicked (unchanged vek's IntoIter leaks them, std's iterators and drop glue drop them; the property does not decide for a panicking destructor) - labelled only; whether a panic could be swallowed (not possible without catch_unwind; a swallowed one is treated like a raised one); the state of an iterator after a panic inside nth / nth_back beyond memory safety and the ledger",
            "not exercised: Sum / Product over iterators of vectors (arithmetic on Copy scalars, no ownership to track); from_slice needs T: Copy, so it cannot clone a tracked element (covered with u32 elements in conv-*); dbg! itself (it is {:#?} into stderr, which is exercised as a format specification)",
            "std's StepBy::nth needs ~2^64 loop rounds when both the step and n are usize::MAX (overflow resolution loop in std, independent of vek): for that one adapter both factors are capped at 2^20; nth / nth_back / skip / take / step_by themselves are exercised with usize::MAX",
            "advance_by, next_chunk, array_chunks, is_empty and the other unstable iterator methods are not callable on the pinned stable toolchain and are reached only through the stable methods built on them",
            "FromIterator fills the tail of a short source with Default values (T: Default bound; from_slice doc: elements are initialized to their default values) and never stores surplus elements",
        ],
        checks,
        max_discard_frac: 0.2,
    }
}
