fn main() {
    vkit::driver::main(c18::property())
}
