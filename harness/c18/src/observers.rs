//! C18: observers in EVERY VARIANT A CALLER CAN SELECT.
//!
//! * formatting: `{:?}`, `{:#?}` (what `dbg!` uses), width / fill / alignment / sign / zero / precision / hex
//!   flags, run-time width and precision, the same value twice in one format string, nesting inside `Some(..)`,
//!   a tuple and a slice (std's pretty printer then hands the impl a *wrapped* formatter), written into five
//!   different sinks (`String` through `fmt::Write`, `Vec<u8>` through `io::Write`, a piece-counting sink, and
//!   two sinks that fail after a few bytes);
//! * hashing: SipHash (`DefaultHasher`), a recording hasher that keeps every `write_*` call, an FNV hasher that
//!   only implements `write`, `BuildHasher::hash_one`, `Hash::hash_slice`, and membership in a `HashSet`;
//! * comparison: `==`, `!=`, through references, inside `Option`, arrays and tuples.
//!
//! Oracle: the ledger's observation log. A formatter of a consuming iterator looks at exactly the LIVE elements,
//! in order (once per occurrence of the value in the format string; a prefix of that when the sink fails), and
//! the element texts shown are those of the model's remaining sequence; nothing else is observed, cloned or
//! dropped. Vectors, matrices and their slice views (nothing is moved out there): every element is looked at,
//! none twice per occurrence; in the documented order for `Display` (vectors: declaration order; matrices:
//! row-major whatever the layout) and for the std formatters of the views.

use crate::ledger::{self, Ctx, Obs};
use crate::shapes::{MatOps, VecOps};
use std::collections::hash_map::DefaultHasher;
use std::fmt::{self, Debug, Display};
use std::hash::{BuildHasher, BuildHasherDefault, Hash, Hasher};
use std::io;
use vkit::*;

// ------------------------------------------------------------------------------------------------
// format specifications
// ------------------------------------------------------------------------------------------------

pub struct Spec<F, G> {
    pub name: &'static str,
    /// how many times the value occurs in the format string
    pub reps: usize,
    pub to_fmt: F,
    pub to_io: G,
}
pub type DebugSpec = Spec<fn(&dyn Debug, &mut dyn fmt::Write) -> fmt::Result, fn(&dyn Debug, &mut dyn io::Write) -> io::Result<()>>;
pub type DisplaySpec = Spec<fn(&dyn Display, &mut dyn fmt::Write) -> fmt::Result, fn(&dyn Display, &mut dyn io::Write) -> io::Result<()>>;

macro_rules! spec {
    ($reps:literal, $name:literal, |$x:ident| $($args:tt)+) => {
        Spec { name: $name, reps: $reps, to_fmt: |$x, w| write!(w, $($args)+), to_io: |$x, w| write!(w, $($args)+) }
    };
}

pub static DEBUG_SPECS: &[DebugSpec] = &[
    spec!(1, "{:?}", |x| "{:?}", x),
    spec!(1, "{:#?}", |x| "{:#?}", x),
    spec!(1, "{:10?}", |x| "{:10?}", x),
    spec!(1, "{:<8?}", |x| "{:<8?}", x),
    spec!(1, "{:^12?}", |x| "{:^12?}", x),
    spec!(1, "{:*>9?}", |x| "{:*>9?}", x),
    spec!(1, "{:+?}", |x| "{:+?}", x),
    spec!(1, "{:-?}", |x| "{:-?}", x),
    spec!(1, "{:05?}", |x| "{:05?}", x),
    spec!(1, "{:#010?}", |x| "{:#010?}", x),
    spec!(1, "{:.3?}", |x| "{:.3?}", x),
    spec!(1, "{:8.2?}", |x| "{:8.2?}", x),
    spec!(1, "{:x?}", |x| "{:x?}", x),
    spec!(1, "{:X?}", |x| "{:X?}", x),
    spec!(1, "{:#x?}", |x| "{:#x?}", x),
    spec!(1, "{:+#12.1X?}", |x| "{:+#12.1X?}", x),
    spec!(1, "{:1$?} (width 11 at run time)", |x| "{:1$?}", x, 11usize),
    spec!(1, "{:.*?} (precision 3 at run time)", |x| "{:.*?}", 3usize, x),
    spec!(2, "{0:?}|{0:#?}", |x| "{0:?}|{0:#?}", x),
    spec!(1, "{:?} of Some(&it)", |x| "{:?}", Some(x)),
    spec!(1, "{:#?} of Some(&it)", |x| "{:#?}", Some(x)),
    spec!(1, "{:#?} of (1, &it)", |x| "{:#?}", (1u8, x)),
    spec!(2, "{:#?} of [&it, &it]", |x| "{:#?}", [x, x]),
    spec!(1, "{:#6?} of Some(Some(&it))", |x| "{:#6?}", Some(Some(x))),
];

pub static DISPLAY_SPECS: &[DisplaySpec] = &[
    spec!(1, "{}", |x| "{}", x),
    spec!(1, "{:#}", |x| "{:#}", x),
    spec!(1, "{:10}", |x| "{:10}", x),
    spec!(1, "{:<8}", |x| "{:<8}", x),
    spec!(1, "{:^12}", |x| "{:^12}", x),
    spec!(1, "{:*>9}", |x| "{:*>9}", x),
    spec!(1, "{:+}", |x| "{:+}", x),
    spec!(1, "{:05}", |x| "{:05}", x),
    spec!(1, "{:.3}", |x| "{:.3}", x),
    spec!(1, "{:+#12.1}", |x| "{:+#12.1}", x),
    spec!(1, "{:1$} (width 11 at run time)", |x| "{:1$}", x, 11usize),
    spec!(2, "{0}|{0:#}", |x| "{0}|{0:#}", x),
];

pub const N_SINKS: usize = 5;
pub const SINK_NAMES: [&str; N_SINKS] = ["sink:String(fmt::Write)", "sink:Vec<u8>(io::Write)", "sink:piece-counter", "sink:fmt-sink-failing-after-k-bytes", "sink:io-sink-failing-after-k-bytes"];

struct Pieces {
    text: String,
    pieces: usize,
}
impl fmt::Write for Pieces {
    fn write_str(&mut self, s: &str) -> fmt::Result {
        self.pieces += 1;
        self.text.push_str(s);
        Ok(())
    }
}
struct FailFmt {
    text: String,
    left: usize,
}
impl fmt::Write for FailFmt {
    fn write_str(&mut self, s: &str) -> fmt::Result {
        if s.len() > self.left {
            self.left = 0;
            return Err(fmt::Error);
        }
        self.left -= s.len();
        self.text.push_str(s);
        Ok(())
    }
}
struct FailIo {
    left: usize,
}
impl io::Write for FailIo {
    fn write(&mut self, b: &[u8]) -> io::Result<usize> {
        if b.len() > self.left {
            self.left = 0;
            return Err(io::Error::new(io::ErrorKind::Other, "sink full"));
        }
        self.left -= b.len();
        Ok(b.len())
    }
    fn flush(&mut self) -> io::Result<()> {
        Ok(())
    }
}

/// (complete text if the sink takes everything, did the call report success)
fn render(to_fmt: &dyn Fn(&mut dyn fmt::Write) -> fmt::Result, to_io: &dyn Fn(&mut dyn io::Write) -> io::Result<()>, sink: usize, limit: usize) -> (Option<String>, bool) {
    match sink {
        0 => {
            let mut s = String::new();
            let r = to_fmt(&mut s);
            (Some(s), r.is_ok())
        }
        1 => {
            let mut v: Vec<u8> = Vec::new();
            let r = to_io(&mut v);
            (Some(String::from_utf8_lossy(&v).into_owned()), r.is_ok())
        }
        2 => {
            let mut p = Pieces { text: String::new(), pieces: 0 };
            let r = to_fmt(&mut p);
            (Some(p.text), r.is_ok())
        }
        3 => {
            let mut f = FailFmt { text: String::new(), left: limit };
            let r = to_fmt(&mut f);
            (if r.is_ok() { Some(f.text) } else { None }, r.is_ok())
        }
        _ => {
            let mut f = FailIo { left: limit };
            let r = to_io(&mut f);
            (None, r.is_ok())
        }
    }
}

pub fn check_debug(cx: &mut Cx, spec: &DebugSpec, sink: usize, x: &dyn Debug, ids: &[u32], vals: &[u32], ordered: bool, at: &dyn Fn() -> String) -> CaseResult {
    check_fmt(cx, Obs::Debug, spec.name, spec.reps, sink, &|s, l| render(&|w| (spec.to_fmt)(x, w), &|w| (spec.to_io)(x, w), s, l), ids, vals, ordered, at)
}
pub fn check_display(cx: &mut Cx, spec: &DisplaySpec, sink: usize, x: &dyn Display, ids: &[u32], vals: &[u32], ordered: bool, at: &dyn Fn() -> String) -> CaseResult {
    check_fmt(cx, Obs::Display, spec.name, spec.reps, sink, &|s, l| render(&|w| (spec.to_fmt)(x, w), &|w| (spec.to_io)(x, w), s, l), ids, vals, ordered, at)
}

/// the element texts (`t<val>`, written by `Tracked`'s `Debug` / `Display`) in the order they appear
pub fn tokens(text: &str) -> Vec<u32> {
    let b = text.as_bytes();
    let mut out = Vec::new();
    let mut i = 0;
    while i < b.len() {
        if b[i] == b't' && (i == 0 || !b[i - 1].is_ascii_alphanumeric()) {
            let mut j = i + 1;
            let mut v: u64 = 0;
            while j < b.len() && b[j].is_ascii_digit() {
                v = v * 10 + (b[j] - b'0') as u64;
                j += 1;
            }
            if j > i + 1 {
                out.push(v as u32);
                i = j;
                continue;
            }
        }
        i += 1;
    }
    out
}

fn sorted(mut v: Vec<u32>) -> Vec<u32> {
    v.sort_unstable();
    v
}

/// Format `x` with one specification into one sink and judge the call by the observation log.
/// `ids` / `vals`: the elements the value currently OWNS, in the order it presents them.
/// `ordered`: the order is part of the claim (else: as a multiset).
fn check_fmt(cx: &mut Cx, kind: Obs, spec_name: &'static str, reps: usize, sink: usize, run: &dyn Fn(usize, usize) -> (Option<String>, bool), ids: &[u32], vals: &[u32], ordered: bool, at: &dyn Fn() -> String) -> CaseResult {
    let _ = ledger::take_obs_log();
    let before = ledger::totals();
    // the failing sinks give up somewhere inside the output (the position depends on the case, deterministically)
    let limit = 2 + (ids.len() * 3 + sink + spec_name.len()) % 23;
    let r = vkit::catch(|| run(sink, limit));
    let log = ledger::take_obs_log();
    let (text, ok) = match r {
        Ok(v) => v,
        Err(msg) => fail!("{}: formatting with {} into {} panicked: {}", at(), spec_name, SINK_NAMES[sink], msg),
    };
    let after = ledger::totals();
    cx.count();
    if after.ids != before.ids || after.drops != before.drops || after.clones != before.clones {
        fail!("{}: formatting with {} created / cloned / dropped elements: before {:?}, after {:?}", at(), spec_name, before, after);
    }
    let seen: Vec<u32> = log.iter().map(|e| e.1).collect();
    cx.count();
    if let Some(e) = log.iter().find(|e| e.0 != kind) {
        fail!("{}: formatting with {} ran {:?} on element #{} (only {:?} is expected)", at(), spec_name, e.0, e.1, kind);
    }
    let mut want_ids: Vec<u32> = Vec::with_capacity(ids.len() * reps);
    let mut want_vals: Vec<u32> = Vec::with_capacity(ids.len() * reps);
    for _ in 0..reps {
        want_ids.extend_from_slice(ids);
        want_vals.extend_from_slice(vals);
    }
    let complete = sink < 3 || ok;
    cx.count();
    if complete {
        if sink < 3 && !ok {
            fail!("{}: formatting with {} into {} reported an error", at(), spec_name, SINK_NAMES[sink]);
        }
        let same = if ordered { seen == want_ids } else { sorted(seen.clone()) == sorted(want_ids.clone()) };
        if !same {
            fail!("{}: formatting with {} into {} looked at the elements {:?}; the value owns exactly {:?}{} (x{} occurrences in the format string)", at(), spec_name, SINK_NAMES[sink], seen, ids, if ordered { ", in this order" } else { "" }, reps);
        }
        if let Some(t) = &text {
            let toks = tokens(t);
            cx.count();
            let same = if ordered { toks == want_vals } else { sorted(toks.clone()) == sorted(want_vals.clone()) };
            if !same {
                fail!("{}: {} shows the element values {:?}, the model says {:?} (text: {:?})", at(), spec_name, toks, want_vals, t);
            }
        }
    } else {
        // the sink failed: whatever was looked at before must be a prefix of the full sequence (as a multiset: a sub-multiset)
        let pre_ok = if ordered { seen.len() <= want_ids.len() && seen[..] == want_ids[..seen.len()] } else { seen.iter().all(|i| want_ids.contains(i)) && seen.len() <= want_ids.len() };
        if !pre_ok {
            fail!("{}: formatting with {} into a failing sink looked at the elements {:?}; the value owns exactly {:?}", at(), spec_name, seen, ids);
        }
    }
    Ok(())
}

// ------------------------------------------------------------------------------------------------
// hashers
// ------------------------------------------------------------------------------------------------

/// Keeps every call: (width tag, bytes). `write_u32` etc. are NOT funnelled into `write`.
#[derive(Default)]
pub struct RecHasher {
    pub calls: Vec<(u8, Vec<u8>)>,
}
impl Hasher for RecHasher {
    fn finish(&self) -> u64 {
        let mut h = 0xcbf2_9ce4_8422_2325u64;
        for (k, b) in &self.calls {
            h = (h ^ *k as u64).wrapping_mul(0x100_0000_01b3);
            for x in b {
                h = (h ^ *x as u64).wrapping_mul(0x100_0000_01b3);
            }
        }
        h
    }
    fn write(&mut self, bytes: &[u8]) {
        self.calls.push((0, bytes.to_vec()));
    }
    fn write_u8(&mut self, i: u8) {
        self.calls.push((1, vec![i]));
    }
    fn write_u32(&mut self, i: u32) {
        self.calls.push((4, i.to_le_bytes().to_vec()));
    }
    fn write_u64(&mut self, i: u64) {
        self.calls.push((8, i.to_le_bytes().to_vec()));
    }
    fn write_usize(&mut self, i: usize) {
        self.calls.push((9, i.to_le_bytes().to_vec()));
    }
}

/// FNV-1a: implements `write` only, everything else is the std default.
pub struct Fnv(pub u64);
impl Default for Fnv {
    fn default() -> Self {
        Fnv(0xcbf2_9ce4_8422_2325)
    }
}
impl Hasher for Fnv {
    fn finish(&self) -> u64 {
        self.0
    }
    fn write(&mut self, bytes: &[u8]) {
        for b in bytes {
            self.0 = (self.0 ^ *b as u64).wrapping_mul(0x100_0000_01b3);
        }
    }
}

pub const HASH_MODES: [&str; 6] = ["DefaultHasher", "recording hasher (write_* kept apart)", "FNV (write only)", "BuildHasher::hash_one", "Hash::hash_slice(&[it])", "hash of (&it, 7u8)"];

/// Everything the different hashing routes produce for one value (recording hasher: the whole call stream).
#[derive(PartialEq, Eq, Debug)]
pub struct HashView {
    pub sip: u64,
    pub rec: Vec<(u8, Vec<u8>)>,
    pub fnv: u64,
    pub one: u64,
    pub slice: Vec<(u8, Vec<u8>)>,
    pub tuple: u64,
}

pub fn hash_view<H: Hash>(x: &H) -> HashView {
    let mut a = DefaultHasher::new();
    x.hash(&mut a);
    let mut r = RecHasher::default();
    x.hash(&mut r);
    let mut f = Fnv::default();
    x.hash(&mut f);
    let one = BuildHasherDefault::<DefaultHasher>::default().hash_one(x);
    let mut s = RecHasher::default();
    H::hash_slice(std::slice::from_ref(x), &mut s);
    let mut t = DefaultHasher::new();
    (x, 7u8).hash(&mut t);
    HashView { sip: a.finish(), rec: r.calls, fnv: f.finish(), one, slice: s.calls, tuple: t.finish() }
}

// ------------------------------------------------------------------------------------------------
// vectors, matrices and their views
// ------------------------------------------------------------------------------------------------

pub const VEC_OBS_KINDS: [&str; 8] = ["{:?} of the vector", "Display of the vector", "{:?} of as_slice()", "{:?} of iter()", "{:?} of &*v (Deref)", "{:?} of iter_mut()", "{:?} of into_array()", "{:?} of a fresh into_iter()"];

pub fn vec_obs_total() -> u64 {
    // kind 1 uses the Display table, all others the Debug table; + the Hash/Eq block
    ((7 * DEBUG_SPECS.len() + DISPLAY_SPECS.len()) * N_SINKS) as u64 + 3
}

pub fn vec_obs_case<V, const N: usize>(idx: u64, cx: &mut Cx) -> CaseResult
where
    V: VecOps<N> + Debug + Display + Hash + PartialEq,
{
    ledger::reset();
    cx.nontrivial();
    let name = V::NAME;
    let fmt_cases = ((7 * DEBUG_SPECS.len() + DISPLAY_SPECS.len()) * N_SINKS) as u64;
    if idx >= fmt_cases {
        // Hash / Eq of the vector type itself under every hashing route: equal vectors agree on every route
        let which = (idx - fmt_cases) as usize; // 0: equal, 1: first element differs, 2: last element differs
        cx.label("vector:hash-routes,==,!=");
        let a = V::build(&mut |k| ledger::fresh(300 + k as u32));
        let b = V::build(&mut |k| ledger::fresh(300 + k as u32 + if (which == 1 && k == 0) || (which == 2 && k == N - 1) { 50 } else { 0 }));
        sample!(cx, "{}: hash routes / == / != of two vectors, variant {}", name, which);
        let r = vkit::catch(|| (hash_view(&a), hash_view(&b), a == b, a != b, b == a, Some(&a) == Some(&b), [&a] != [&b]));
        let (ha, hb, e, ne, e2, eo, nes) = match r {
            Ok(v) => v,
            Err(m) => fail!("{}: hashing / comparing vectors panicked: {}", name, m),
        };
        let equal = which == 0;
        check!(cx, (e, ne, e2, eo, nes) == (equal, !equal, equal, equal, !equal), "{}: vectors {} : (a==b, a!=b, b==a, Some(&a)==Some(&b), [&a]!=[&b]) = {:?}", name, if equal { "with equal elements" } else { "differing in one element" }, (e, ne, e2, eo, nes));
        if equal {
            check!(cx, ha == hb, "{}: equal vectors hash differently on some route: {:?} vs {:?}", name, ha, hb);
        }
        crate::settle_strict(cx, &|| format!("{} hash / == of vectors", name))?;
        let t = ledger::totals();
        check!(cx, t.drops == 0 && t.clones == 0 && t.ids == 2 * N, "{}: hashing / comparing vectors created / cloned / dropped elements: {:?}", name, t);
        drop(a);
        drop(b);
        return crate::all_dropped_once(cx, &|| format!("{} hash / == of vectors, after dropping them", name));
    }
    let sink = (idx % N_SINKS as u64) as usize;
    let r = (idx / N_SINKS as u64) as usize;
    let (kind, spec) = if r < 7 * DEBUG_SPECS.len() {
        let k = r / DEBUG_SPECS.len();
        (if k == 0 { 0 } else { k + 1 }, r % DEBUG_SPECS.len())
    } else {
        (1, r - 7 * DEBUG_SPECS.len())
    };
    cx.label(VEC_OBS_KINDS[kind]);
    cx.label(SINK_NAMES[sink]);
    let mut v = V::build(&mut |k| ledger::fresh(300 + k as u32));
    let ids: Vec<u32> = (0..N).map(|k| v.fld(k).id).collect();
    let vals: Vec<u32> = (0..N).map(|k| v.fld(k).val).collect();
    let at = || format!("{} {} with {}", name, VEC_OBS_KINDS[kind], if kind == 1 { DISPLAY_SPECS[spec].name } else { DEBUG_SPECS[spec].name });
    sample!(cx, "{} into {}", at(), SINK_NAMES[sink]);
    match kind {
        // the order in which a vector's own Debug lists its fields is not documented: judged as a multiset
        0 => check_debug(cx, &DEBUG_SPECS[spec], sink, &v as &dyn Debug, &ids, &vals, false, &at)?,
        1 => check_display(cx, &DISPLAY_SPECS[spec], sink, &v as &dyn Display, &ids, &vals, true, &at)?,
        2 => check_debug(cx, &DEBUG_SPECS[spec], sink, &v.view(0).slice as &dyn Debug, &ids, &vals, true, &at)?,
        3 => {
            let mut res = Ok(());
            v.with_iter_debug(&mut |d| res = check_debug(cx, &DEBUG_SPECS[spec], sink, d, &ids, &vals, true, &at));
            res?
        }
        4 => check_debug(cx, &DEBUG_SPECS[spec], sink, &v.view(1).slice as &dyn Debug, &ids, &vals, true, &at)?,
        5 => {
            let mut res = Ok(());
            v.with_iter_mut_debug(&mut |d| res = check_debug(cx, &DEBUG_SPECS[spec], sink, d, &ids, &vals, true, &at));
            res?
        }
        6 => {
            let a = v.into_array_();
            check_debug(cx, &DEBUG_SPECS[spec], sink, &a as &dyn Debug, &ids, &vals, true, &at)?;
            crate::settle_strict(cx, &at)?;
            drop(a);
            return crate::all_dropped_once(cx, &|| format!("{}, after dropping the array", at()));
        }
        _ => {
            let it = crate::Guard::new(v.into_it());
            ledger::with_ctx(Ctx::IterDebug, || check_debug(cx, &DEBUG_SPECS[spec], sink, &*it as &dyn Debug, &ids, &vals, true, &at))?;
            crate::settle_strict(cx, &at)?;
            if let Err(m) = it.finish() {
                fail!("{}: dropping the iterator panicked: {}", at(), m);
            }
            return crate::all_dropped_once(cx, &|| format!("{}, after dropping the iterator", at()));
        }
    }
    crate::settle_strict(cx, &at)?;
    drop(v);
    crate::all_dropped_once(cx, &|| format!("{}, after dropping the vector", at()))
}

pub const MAT_OBS_KINDS: [&str; 3] = ["{:?} of the matrix", "Display of the matrix (row-major whatever the layout)", "{:?} of the native slice view"];

pub fn mat_obs_total() -> u64 {
    ((2 * DEBUG_SPECS.len() + DISPLAY_SPECS.len()) * N_SINKS) as u64
}

pub fn mat_obs_case<M, const N: usize, const NN: usize>(idx: u64, cx: &mut Cx) -> CaseResult
where
    M: MatOps<N, NN> + Debug + Display,
{
    ledger::reset();
    cx.nontrivial();
    let name = M::NAME;
    let sink = (idx % N_SINKS as u64) as usize;
    let r = (idx / N_SINKS as u64) as usize;
    let (kind, spec) = if r < DEBUG_SPECS.len() {
        (0, r)
    } else if r < 2 * DEBUG_SPECS.len() {
        (2, r - DEBUG_SPECS.len())
    } else {
        (1, r - 2 * DEBUG_SPECS.len())
    };
    cx.label(MAT_OBS_KINDS[kind]);
    cx.label(SINK_NAMES[sink]);
    let m = M::build(&mut |i, j| ledger::fresh(400 + (10 * i + j) as u32));
    let at = || format!("{} {} with {}", name, MAT_OBS_KINDS[kind], if kind == 1 { DISPLAY_SPECS[spec].name } else { DEBUG_SPECS[spec].name });
    sample!(cx, "{} into {}", at(), SINK_NAMES[sink]);
    // row-major listing
    let rm: Vec<(u32, u32)> = (0..NN).map(|q| (m.at(q / N, q % N).id, m.at(q / N, q % N).val)).collect();
    // storage order of the native slice
    let st: Vec<(u32, u32)> = (0..NN).map(|q| if M::ROW_MAJOR { (q / N, q % N) } else { (q % N, q / N) }).map(|(i, j)| (m.at(i, j).id, m.at(i, j).val)).collect();
    let split = |v: &[(u32, u32)]| -> (Vec<u32>, Vec<u32>) { (v.iter().map(|p| p.0).collect(), v.iter().map(|p| p.1).collect()) };
    match kind {
        0 => {
            let (ids, vals) = split(&rm);
            check_debug(cx, &DEBUG_SPECS[spec], sink, &m as &dyn Debug, &ids, &vals, false, &at)?
        }
        1 => {
            let (ids, vals) = split(&rm);
            check_display(cx, &DISPLAY_SPECS[spec], sink, &m as &dyn Display, &ids, &vals, true, &at)?
        }
        _ => {
            let (ids, vals) = split(&st);
            check_debug(cx, &DEBUG_SPECS[spec], sink, &m.native_slice() as &dyn Debug, &ids, &vals, true, &at)?
        }
    }
    crate::settle_strict(cx, &at)?;
    drop(m);
    crate::all_dropped_once(cx, &|| format!("{}, after dropping the matrix", at()))
}
