//! Adapters that expose vek's vector and matrix types to the generic checks.
//!
//! Ground truth is always the PUBLIC FIELDS: vectors are built with a struct literal
//! (`Vec3 { x, y, z }`, `Vec8 { 0: .., 1: .., .. }`) and read through `v.x` / `v.0`; matrices through
//! `m.rows.<i>.<j>` (row-major) and `m.cols.<j>.<i>` (column-major). The vek functions under test are
//! only wrapped, never used to build or read the reference.

use crate::ledger::{self, Tracked};
use std::borrow::{Borrow, BorrowMut};
use std::fmt::Debug;
use std::hash::Hash;
use std::ops::{Deref, DerefMut};
use vek::mat::repr_c::column_major as cm;
use vek::mat::repr_c::row_major as rm;
use vek::vec::repr_c::{Extent2, Extent3, Rgb, Rgba, Uv, Uvw, Vec16, Vec2, Vec3, Vec32, Vec4, Vec64, Vec8};

/// Field-level access to a vek vector type, for any element type.
pub trait Fields<T>: Sized {
    const N: usize;
    /// Struct literal; `f(0)`, `f(1)`, .. are evaluated in ascending order.
    fn build(f: &mut dyn FnMut(usize) -> T) -> Self;
    fn fld(&self, k: usize) -> &T;
    fn fld_mut(&mut self, k: usize) -> &mut T;
}

macro_rules! impl_fields {
    ($V:ident, $n:expr, ($($f:tt)+), ($($k:tt)+)) => {
        impl<T> Fields<T> for $V<T> {
            const N: usize = $n;
            fn build(f: &mut dyn FnMut(usize) -> T) -> Self {
                $V { $($f: f($k)),+ }
            }
            fn fld(&self, k: usize) -> &T {
                match k { $($k => &self.$f,)+ _ => panic!("harness: field index out of range") }
            }
            fn fld_mut(&mut self, k: usize) -> &mut T {
                match k { $($k => &mut self.$f,)+ _ => panic!("harness: field index out of range") }
            }
        }
    };
}

/// Shared (read-only) view of a vector: the slice vek hands out and the references obtained by walking it.
pub struct View<'a> {
    pub slice: &'a [Tracked],
    pub refs: Vec<&'a Tracked>,
}

pub const VIEW_KINDS: [&str; 6] = ["as_slice", "Deref", "AsRef<[T]>", "Borrow<[T]>", "iter()", "(&v).into_iter()"];
pub const VIEW_MUT_KINDS: [&str; 6] = ["as_mut_slice", "DerefMut", "AsMut<[T]>", "BorrowMut<[T]>", "iter_mut()", "(&mut v).into_iter()"];

/// The vek operations of one vector type instantiated with `Tracked`.
pub trait VecOps<const N: usize>: Fields<Tracked> {
    const NAME: &'static str;
    type It: Iterator<Item = Tracked> + DoubleEndedIterator + ExactSizeIterator + Debug + PartialEq + Eq + Hash;
    type Ids: Fields<u32>;
    type Pairs: Fields<(Tracked, Tracked)>;
    fn into_it(self) -> Self::It;
    fn from_array(a: [Tracked; N]) -> Self;
    fn into_array_(self) -> [Tracked; N];
    /// `into_tuple()`, then the tuple's fields .0, .1, .. moved into a Vec by the harness.
    fn into_tuple_(self) -> Vec<Tracked>;
    /// `From<(T, .., T)>` on the tuple `(f(0), f(1), ..)`.
    fn from_tuple(f: &mut dyn FnMut(usize) -> Tracked) -> Self;
    fn from_iter_(it: &mut dyn Iterator<Item = Tracked>) -> Self;
    /// `from_slice` needs `T: Default + Copy`, so it is exercised with plain `u32` elements.
    fn from_slice_u32(s: &[u32]) -> Self::Ids;
    fn map_identity(self) -> Self;
    /// `map` with a closure that consumes each element and returns its id.
    fn map_consume(self) -> Self::Ids;
    fn zip_(self, other: Self) -> Self::Pairs;
    fn map2_pair(self, other: Self) -> Self::Pairs;
    /// `map3` with a closure keeping the first and third argument and consuming the second.
    fn map3_outer(self, b: Self, c: Self) -> Self::Pairs;
    fn view(&self, kind: usize) -> View<'_>;
    fn view_mut(&mut self, kind: usize) -> &mut [Tracked];
    /// Addresses of the items produced by `iter_mut()` (kind 4) / `(&mut v).into_iter()` (kind 5); never dereferenced.
    fn iter_mut_addrs(&mut self, kind: usize) -> Vec<usize>;
    fn elem_count_(&self) -> usize;
    /// closures that call `ledger::tick()` (panic injection), for the unwinding checks
    fn map_tick(self) -> Self;
    fn map_consume_tick(self) -> Self::Ids;
    fn map2_tick(self, other: Self) -> Self::Pairs;
    fn map3_tick(self, b: Self, c: Self) -> Self::Pairs;
    /// `reduce` keeping the left argument and consuming the right one
    fn reduce_tick(self) -> Tracked;
    fn reduce_min_(self) -> Tracked;
    fn reduce_max_(self) -> Tracked;
    /// hands the `iter()` object itself (not its slice) to `f`
    fn with_iter_debug(&self, f: &mut dyn FnMut(&dyn Debug));
    /// hands the `iter_mut()` object itself to `f`
    fn with_iter_mut_debug(&mut self, f: &mut dyn FnMut(&dyn Debug));
}

fn eat(t: Tracked) -> u32 {
    let id = t.id;
    ledger::yielded(&t);
    ledger::consume(t);
    id
}

macro_rules! impl_vecops {
    ($V:ident, $n:expr, ($($f:tt)+), ($($k:tt)+)) => {
        impl_fields!($V, $n, ($($f)+), ($($k)+));
        impl VecOps<$n> for $V<Tracked> {
            const NAME: &'static str = stringify!($V);
            type It = <$V<Tracked> as IntoIterator>::IntoIter;
            type Ids = $V<u32>;
            type Pairs = $V<(Tracked, Tracked)>;
            fn into_it(self) -> Self::It { self.into_iter() }
            fn from_array(a: [Tracked; $n]) -> Self { <$V<Tracked> as From<[Tracked; $n]>>::from(a) }
            fn into_array_(self) -> [Tracked; $n] { self.into_array() }
            fn into_tuple_(self) -> Vec<Tracked> {
                let t = self.into_tuple();
                vec![$(t.$k),+]
            }
            fn from_tuple(f: &mut dyn FnMut(usize) -> Tracked) -> Self {
                let t = ($(f($k)),+);
                <$V<Tracked> as From<_>>::from(t)
            }
            fn from_iter_(it: &mut dyn Iterator<Item = Tracked>) -> Self {
                <$V<Tracked> as std::iter::FromIterator<Tracked>>::from_iter(it)
            }
            fn from_slice_u32(s: &[u32]) -> Self::Ids { <$V<u32>>::from_slice(s) }
            fn map_identity(self) -> Self { self.map(|t| t) }
            fn map_consume(self) -> Self::Ids { self.map(eat) }
            fn zip_(self, other: Self) -> Self::Pairs { self.zip(other) }
            fn map2_pair(self, other: Self) -> Self::Pairs { self.map2(other, |a, b| (a, b)) }
            fn map3_outer(self, b: Self, c: Self) -> Self::Pairs {
                self.map3(b, c, |x, y, z| { eat(y); (x, z) })
            }
            fn view(&self, kind: usize) -> View<'_> {
                match kind {
                    0 => { let s = self.as_slice(); View { slice: s, refs: s.iter().collect() } }
                    1 => { let s: &[Tracked] = Deref::deref(self); View { slice: s, refs: s.iter().collect() } }
                    2 => { let s: &[Tracked] = AsRef::<[Tracked]>::as_ref(self); View { slice: s, refs: s.iter().collect() } }
                    3 => { let s: &[Tracked] = Borrow::<[Tracked]>::borrow(self); View { slice: s, refs: s.iter().collect() } }
                    4 => { let it = self.iter(); View { slice: it.as_slice(), refs: it.collect() } }
                    _ => { let it = <&$V<Tracked> as IntoIterator>::into_iter(self); View { slice: it.as_slice(), refs: it.collect() } }
                }
            }
            fn view_mut(&mut self, kind: usize) -> &mut [Tracked] {
                match kind {
                    0 => self.as_mut_slice(),
                    1 => DerefMut::deref_mut(self),
                    2 => AsMut::<[Tracked]>::as_mut(self),
                    3 => BorrowMut::<[Tracked]>::borrow_mut(self),
                    4 => self.iter_mut().into_slice(),
                    _ => <&mut $V<Tracked> as IntoIterator>::into_iter(self).into_slice(),
                }
            }
            fn iter_mut_addrs(&mut self, kind: usize) -> Vec<usize> {
                if kind == 4 {
                    self.iter_mut().map(|r| r as *mut Tracked as usize).collect()
                } else {
                    <&mut $V<Tracked> as IntoIterator>::into_iter(self).map(|r| r as *mut Tracked as usize).collect()
                }
            }
            fn elem_count_(&self) -> usize { self.elem_count() }
            fn map_tick(self) -> Self { self.map(|t| { ledger::tick(); t }) }
            fn map_consume_tick(self) -> Self::Ids { self.map(|t| { let id = eat(t); ledger::tick(); id }) }
            fn map2_tick(self, other: Self) -> Self::Pairs { self.map2(other, |a, b| { ledger::tick(); (a, b) }) }
            fn map3_tick(self, b: Self, c: Self) -> Self::Pairs { self.map3(b, c, |x, y, z| { eat(y); ledger::tick(); (x, z) }) }
            fn reduce_tick(self) -> Tracked { self.reduce(|a, b| { eat(b); ledger::tick(); a }) }
            fn reduce_min_(self) -> Tracked { self.reduce_min() }
            fn reduce_max_(self) -> Tracked { self.reduce_max() }
            fn with_iter_debug(&self, f: &mut dyn FnMut(&dyn Debug)) { let it = self.iter(); f(&it) }
            fn with_iter_mut_debug(&mut self, f: &mut dyn FnMut(&dyn Debug)) { let it = self.iter_mut(); f(&it) }
        }
    };
}

impl_vecops!(Vec2, 2, (x y), (0 1));
impl_vecops!(Vec3, 3, (x y z), (0 1 2));
impl_vecops!(Vec4, 4, (x y z w), (0 1 2 3));
impl_vecops!(Extent2, 2, (w h), (0 1));
impl_vecops!(Extent3, 3, (w h d), (0 1 2));
impl_vecops!(Rgb, 3, (r g b), (0 1 2));
impl_vecops!(Rgba, 4, (r g b a), (0 1 2 3));
impl_vecops!(Uv, 2, (u v), (0 1));
impl_vecops!(Uvw, 3, (u v w), (0 1 2));
impl_vecops!(Vec8, 8, (0 1 2 3 4 5 6 7), (0 1 2 3 4 5 6 7));
impl_vecops!(Vec16, 16, (0 1 2 3 4 5 6 7 8 9 10 11 12 13 14 15), (0 1 2 3 4 5 6 7 8 9 10 11 12 13 14 15));
impl_vecops!(Vec32, 32,
    (0 1 2 3 4 5 6 7 8 9 10 11 12 13 14 15 16 17 18 19 20 21 22 23 24 25 26 27 28 29 30 31),
    (0 1 2 3 4 5 6 7 8 9 10 11 12 13 14 15 16 17 18 19 20 21 22 23 24 25 26 27 28 29 30 31));
impl_vecops!(Vec64, 64,
    (0 1 2 3 4 5 6 7 8 9 10 11 12 13 14 15 16 17 18 19 20 21 22 23 24 25 26 27 28 29 30 31 32 33 34 35 36 37 38 39 40 41 42 43 44 45 46 47 48 49 50 51 52 53 54 55 56 57 58 59 60 61 62 63),
    (0 1 2 3 4 5 6 7 8 9 10 11 12 13 14 15 16 17 18 19 20 21 22 23 24 25 26 27 28 29 30 31 32 33 34 35 36 37 38 39 40 41 42 43 44 45 46 47 48 49 50 51 52 53 54 55 56 57 58 59 60 61 62 63));

/// The vek operations of one square matrix type (size N, NN = N*N) instantiated with `Tracked`.
/// Element (i, j) = row i, column j, always read through the public `rows` / `cols` field.
pub trait MatOps<const N: usize, const NN: usize>: Sized {
    const NAME: &'static str;
    const ROW_MAJOR: bool;
    type Other: MatOps<N, NN>;
    type Ids;
    fn build(f: &mut dyn FnMut(usize, usize) -> Tracked) -> Self;
    fn at(&self, i: usize, j: usize) -> &Tracked;
    fn at_mut(&mut self, i: usize, j: usize) -> &mut Tracked;
    fn ids_at(m: &Self::Ids, i: usize, j: usize) -> u32;
    fn into_row_array_(self) -> [Tracked; NN];
    fn into_col_array_(self) -> [Tracked; NN];
    fn into_row_arrays_(self) -> [[Tracked; N]; N];
    fn into_col_arrays_(self) -> [[Tracked; N]; N];
    fn from_row_array_(a: [Tracked; NN]) -> Self;
    fn from_col_array_(a: [Tracked; NN]) -> Self;
    fn from_row_arrays_(a: [[Tracked; N]; N]) -> Self;
    fn from_col_arrays_(a: [[Tracked; N]; N]) -> Self;
    fn transposed_(self) -> Self;
    fn transpose_(&mut self);
    /// `Other::from(self)`: same matrix in the other storage layout.
    fn relayout(self) -> Self::Other;
    /// `Mat::new(f(0), f(1), ..)`: arguments are m00, m01, .. in row-major order whatever the layout.
    fn new_(f: &mut dyn FnMut(usize) -> Tracked) -> Self;
    fn map_identity(self) -> Self;
    fn map_consume(self) -> Self::Ids;
    /// `map2` with a closure keeping the left and consuming the right argument.
    fn map2_left(self, other: Self) -> Self;
    /// `map_rows(|r| r)` / `map_cols(|c| c)`.
    fn map_lines_identity(self) -> Self;
    /// closures that call `ledger::tick()` (panic injection), for the unwinding checks
    fn map_tick(self) -> Self;
    fn map2_tick(self, other: Self) -> Self;
    fn map_lines_tick(self) -> Self;
    /// `diagonal()` moved into a Vec through the result's public fields.
    fn diagonal_(self) -> Vec<Tracked>;
    /// `as_row_slice` (row-major) / `as_col_slice` (column-major).
    fn native_slice(&self) -> &[Tracked];
    fn native_slice_mut(&mut self) -> &mut [Tracked];
    fn native_ptr(&self) -> *const Tracked;
    fn native_ptr_mut(&mut self) -> *mut Tracked;
    /// Address of the matrix value itself.
    fn self_addr(&self) -> usize {
        self as *const Self as usize
    }
    fn size_of_self() -> usize {
        std::mem::size_of::<Self>()
    }
}

macro_rules! impl_matops {
    (@common $Mat:ident, $V:ident, $n:expr, $nn:expr, ($($q:tt)+), ($($d:ident)+)) => {
        fn into_row_array_(self) -> [Tracked; $nn] { self.into_row_array() }
        fn into_col_array_(self) -> [Tracked; $nn] { self.into_col_array() }
        fn into_row_arrays_(self) -> [[Tracked; $n]; $n] { self.into_row_arrays() }
        fn into_col_arrays_(self) -> [[Tracked; $n]; $n] { self.into_col_arrays() }
        fn from_row_array_(a: [Tracked; $nn]) -> Self { Self::from_row_array(a) }
        fn from_col_array_(a: [Tracked; $nn]) -> Self { Self::from_col_array(a) }
        fn from_row_arrays_(a: [[Tracked; $n]; $n]) -> Self { Self::from_row_arrays(a) }
        fn from_col_arrays_(a: [[Tracked; $n]; $n]) -> Self { Self::from_col_arrays(a) }
        fn transposed_(self) -> Self { self.transposed() }
        fn transpose_(&mut self) { self.transpose() }
        fn relayout(self) -> Self::Other { <Self::Other as From<Self>>::from(self) }
        fn new_(f: &mut dyn FnMut(usize) -> Tracked) -> Self { Self::new($(f($q)),+) }
        fn map_identity(self) -> Self { self.map(|t| t) }
        fn map_consume(self) -> Self::Ids { self.map(eat) }
        fn map2_left(self, other: Self) -> Self { self.map2(other, |a, b| { eat(b); a }) }
        fn map_tick(self) -> Self { self.map(|t| { ledger::tick(); t }) }
        fn map2_tick(self, other: Self) -> Self { self.map2(other, |a, b| { eat(b); ledger::tick(); a }) }
        fn diagonal_(self) -> Vec<Tracked> {
            let d = self.diagonal();
            let $V { $($d),+ } = d;
            vec![$($d),+]
        }
    };
    (rows $Mat:ident, $V:ident, $n:expr, $nn:expr, ($($q:tt)+), ($($d:ident)+)) => {
        impl MatOps<$n, $nn> for rm::$Mat<Tracked> {
            const NAME: &'static str = concat!("row_major::", stringify!($Mat));
            const ROW_MAJOR: bool = true;
            type Other = cm::$Mat<Tracked>;
            type Ids = rm::$Mat<u32>;
            fn build(f: &mut dyn FnMut(usize, usize) -> Tracked) -> Self {
                rm::$Mat { rows: <$V<$V<Tracked>> as Fields<_>>::build(&mut |i| <$V<Tracked> as Fields<_>>::build(&mut |j| f(i, j))) }
            }
            fn at(&self, i: usize, j: usize) -> &Tracked { self.rows.fld(i).fld(j) }
            fn ids_at(m: &Self::Ids, i: usize, j: usize) -> u32 { *m.rows.fld(i).fld(j) }
            fn at_mut(&mut self, i: usize, j: usize) -> &mut Tracked { self.rows.fld_mut(i).fld_mut(j) }
            impl_matops!(@common $Mat, $V, $n, $nn, ($($q)+), ($($d)+));
            fn map_lines_identity(self) -> Self { self.map_rows(|r| r) }
            fn map_lines_tick(self) -> Self { self.map_rows(|r| { ledger::tick(); r }) }
            fn native_slice(&self) -> &[Tracked] { self.as_row_slice() }
            fn native_slice_mut(&mut self) -> &mut [Tracked] { self.as_mut_row_slice() }
            fn native_ptr(&self) -> *const Tracked { self.as_row_ptr() }
            fn native_ptr_mut(&mut self) -> *mut Tracked { self.as_mut_row_ptr() }
        }
    };
    (cols $Mat:ident, $V:ident, $n:expr, $nn:expr, ($($q:tt)+), ($($d:ident)+)) => {
        impl MatOps<$n, $nn> for cm::$Mat<Tracked> {
            const NAME: &'static str = concat!("column_major::", stringify!($Mat));
            const ROW_MAJOR: bool = false;
            type Other = rm::$Mat<Tracked>;
            type Ids = cm::$Mat<u32>;
            fn build(f: &mut dyn FnMut(usize, usize) -> Tracked) -> Self {
                // storage order: column 0 first
                cm::$Mat { cols: <$V<$V<Tracked>> as Fields<_>>::build(&mut |j| <$V<Tracked> as Fields<_>>::build(&mut |i| f(i, j))) }
            }
            fn at(&self, i: usize, j: usize) -> &Tracked { self.cols.fld(j).fld(i) }
            fn ids_at(m: &Self::Ids, i: usize, j: usize) -> u32 { *m.cols.fld(j).fld(i) }
            fn at_mut(&mut self, i: usize, j: usize) -> &mut Tracked { self.cols.fld_mut(j).fld_mut(i) }
            impl_matops!(@common $Mat, $V, $n, $nn, ($($q)+), ($($d)+));
            fn map_lines_identity(self) -> Self { self.map_cols(|c| c) }
            fn map_lines_tick(self) -> Self { self.map_cols(|c| { ledger::tick(); c }) }
            fn native_slice(&self) -> &[Tracked] { self.as_col_slice() }
            fn native_slice_mut(&mut self) -> &mut [Tracked] { self.as_mut_col_slice() }
            fn native_ptr(&self) -> *const Tracked { self.as_col_ptr() }
            fn native_ptr_mut(&mut self) -> *mut Tracked { self.as_mut_col_ptr() }
        }
    };
}

impl_matops!(rows Mat2, Vec2, 2, 4, (0 1 2 3), (x y));
impl_matops!(cols Mat2, Vec2, 2, 4, (0 1 2 3), (x y));
impl_matops!(rows Mat3, Vec3, 3, 9, (0 1 2 3 4 5 6 7 8), (x y z));
impl_matops!(cols Mat3, Vec3, 3, 9, (0 1 2 3 4 5 6 7 8), (x y z));
impl_matops!(rows Mat4, Vec4, 4, 16, (0 1 2 3 4 5 6 7 8 9 10 11 12 13 14 15), (x y z w));
impl_matops!(cols Mat4, Vec4, 4, 16, (0 1 2 3 4 5 6 7 8 9 10 11 12 13 14 15), (x y z w));
