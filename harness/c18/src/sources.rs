//! C18: BORROWED sources of the iterator-consuming conversions.
//!
//! The only vek conversion that consumes an iterator is `FromIterator for $Vec` (`from_slice` is built on it; there
//! is no `Extend`). With an OWNED source it does not matter how many elements the implementation pulls; with a
//! BORROWED one (`it.by_ref()`, `&mut it`, `&mut dyn Iterator`, adapters over them) it does: one stream is split
//! into several vectors, and every element must end up in exactly one vector or still be in the source.
//!
//! A case: a source with `len` elements (0 ..= 2n+2: fewer, exactly as many, more than needed) of one of the kinds
//! below is fed to `V::from_iter` / `collect::<V>()` for a number of rounds; after EVERY round
//!   * the vector holds the next min(n, remaining) source elements in order, the tail is `Default`-created,
//!   * the source holds exactly the elements not placed so far (`len()` / `size_hint()` of exact-size sources,
//!     the hand-out counter of the harness's own source, and finally by draining it),
//!   * the ledger balances: no source element was dropped, yielded to anybody else, cloned or observed.
//! At the end everything is dropped exactly once.

use crate::ledger::{self, St, Tracked};
use crate::shapes::VecOps;
use std::collections::VecDeque;
use std::iter::FromIterator;
use vkit::*;

/// The harness's own source: counts what it hands out; `hint` selects the (always legal) size_hint it reports.
pub struct Src {
    items: VecDeque<Tracked>,
    handed_out: usize,
    calls_after_none: usize,
    done: bool,
    hint: u8,
}
impl Iterator for Src {
    type Item = Tracked;
    fn next(&mut self) -> Option<Tracked> {
        match self.items.pop_front() {
            Some(t) => {
                self.handed_out += 1;
                Some(t)
            }
            None => {
                if self.done {
                    self.calls_after_none += 1;
                }
                self.done = true;
                None
            }
        }
    }
    fn size_hint(&self) -> (usize, Option<usize>) {
        let n = self.items.len();
        match self.hint {
            0 => (n, Some(n)),
            1 => (0, None),
            2 => (n, None),
            _ => (0, Some(n + 5)),
        }
    }
}

pub const KINDS: [&str; 12] = [
    "source:vec::IntoIter.by_ref() -> V::from_iter",
    "source:vec::IntoIter.by_ref().collect::<V>()",
    "source:&mut own-source(exact hint)",
    "source:&mut dyn Iterator over own-source(hint (0,None))",
    "source:&mut own-source(hint (n,None))",
    "source:&mut own-source(hint (0,Some(n+5)))",
    "source:vec_deque::IntoIter.by_ref().rev()",
    "source:vek IntoIter a.by_ref().chain(b.by_ref()) (both advanced)",
    "source:vek IntoIter (own type, advanced from both ends).by_ref()",
    "source:vec::IntoIter.by_ref().take(k), k = n-1, n, n+1, n+2 in turn",
    "source:vec::IntoIter.by_ref().map(identity)",
    "source:&mut &mut vec::IntoIter (by_ref of by_ref)",
];

enum Stream<I> {
    VecIt(std::vec::IntoIter<Tracked>),
    Deque(std::collections::vec_deque::IntoIter<Tracked>),
    Own(Src),
    VekPair(I, I),
    VekOne(I),
}

pub fn split_total(n: u64) -> u64 {
    KINDS.len() as u64 * (2 * n + 3) * 3
}

/// idx = ((kind * (2n+3)) + len) * 3 + rounds-1
pub fn split_case<V, const N: usize>(idx: u64, cx: &mut Cx) -> CaseResult
where
    V: VecOps<N> + FromIterator<Tracked>,
{
    ledger::reset();
    let n = N;
    let name = V::NAME;
    let rounds = (idx % 3) as usize + 1;
    let len_req = ((idx / 3) % (2 * n as u64 + 3)) as usize;
    let kind = (idx / 3 / (2 * n as u64 + 3)) as usize;
    cx.label(KINDS[kind]);
    // ---- build the source; `order` = ids in the order the source will present them
    let mk = |k: usize| ledger::fresh(2000 + k as u32);
    let order: Vec<u32>;
    let mut pre_yielded: Vec<Tracked> = Vec::new(); // elements pulled while bringing vek iterators into their state
    let mut stream: Stream<V::It> = match kind {
        0 | 1 | 9 | 10 | 11 => {
            let v: Vec<Tracked> = (0..len_req).map(mk).collect();
            order = v.iter().map(|t| t.id).collect();
            Stream::VecIt(v.into_iter())
        }
        2 | 3 | 4 | 5 => {
            let items: VecDeque<Tracked> = (0..len_req).map(mk).collect();
            order = items.iter().map(|t| t.id).collect();
            Stream::Own(Src { items, handed_out: 0, calls_after_none: 0, done: false, hint: (kind - 2) as u8 })
        }
        6 => {
            let v: VecDeque<Tracked> = (0..len_req).map(mk).collect();
            order = v.iter().rev().map(|t| t.id).collect();
            Stream::Deque(v.into_iter())
        }
        7 => {
            // a keeps its first `la` elements (advanced from the back), b its last `lb` (advanced from the front)
            let len = len_req.min(2 * n);
            let (la, lb) = (len.min(n), len - len.min(n));
            let mut a = V::build(&mut |k| mk(k)).into_it();
            let mut b = V::build(&mut |k| mk(n + k)).into_it();
            for _ in 0..n - la {
                pre_yielded.extend(a.next_back());
            }
            for _ in 0..n - lb {
                pre_yielded.extend(b.next());
            }
            order = (0..la as u32).chain((2 * n - lb) as u32..(2 * n) as u32).collect();
            Stream::VekPair(a, b)
        }
        _ => {
            // one iterator of the own type holding `len` elements in the middle of its storage
            let len = len_req.min(n);
            let cut = n - len;
            let (f, b) = (cut / 2, cut - cut / 2);
            let mut a = V::build(&mut |k| mk(k)).into_it();
            for _ in 0..f {
                pre_yielded.extend(a.next());
            }
            for _ in 0..b {
                pre_yielded.extend(a.next_back());
            }
            order = (f as u32..(n - b) as u32).collect();
            Stream::VekOne(a)
        }
    };
    for t in &pre_yielded {
        ledger::yielded(t);
    }
    let len = order.len();
    cx.label(if len < n { "source:fewer-than-needed" } else if len == n { "source:exactly-as-many" } else { "source:more-than-needed" });
    sample!(cx, "{} <- {} with {} elements, {} round(s)", name, KINDS[kind], len, rounds);
    let at = |r: usize| format!("{} <- {} ({} elements), round {}", name, KINDS[kind], len, r + 1);
    let source_ids: Vec<u32> = order.clone();
    let mut pos = 0usize; // how many elements of `order` have left the source according to the model
    let mut vectors: Vec<V> = Vec::new();
    let mut dropped_vectors: Vec<u32> = Vec::new(); // ids that were inside vectors the harness has already dropped
    for r in 0..rounds {
        let here = || at(r);
        let k_take = n - 1 + (r % 4); // kind 9
        let want_take = match kind {
            9 => k_take.min(n).min(len - pos),
            _ => n.min(len - pos),
        };
        let before = ledger::totals();
        let got: Result<V, String> = {
            let st = &mut stream;
            vkit::catch(move || match st {
                Stream::VecIt(it) => match kind {
                    0 => V::from_iter(it.by_ref()),
                    1 => it.by_ref().collect::<V>(),
                    9 => it.by_ref().take(k_take).collect::<V>(),
                    10 => V::from_iter(it.by_ref().map(|t| t)),
                    _ => {
                        let mut r1 = &mut *it;
                        let r2 = &mut r1;
                        V::from_iter(r2)
                    }
                },
                Stream::Deque(it) => V::from_iter(it.by_ref().rev()),
                Stream::Own(s) => {
                    if s.hint == 1 {
                        let d: &mut dyn Iterator<Item = Tracked> = s;
                        V::from_iter(d)
                    } else {
                        V::from_iter(&mut *s)
                    }
                }
                Stream::VekPair(a, b) => V::from_iter(a.by_ref().chain(b.by_ref())),
                Stream::VekOne(a) => V::from_iter(a.by_ref()),
            })
        };
        let v = match got {
            Ok(v) => v,
            Err(m) => fail!("{}: panicked: {}", here(), m),
        };
        crate::settle_strict(cx, &here)?;
        // ---- the vector
        let mut tail_defaults = 0usize;
        for k in 0..n {
            let t = v.fld(k);
            cx.count();
            if k < want_take {
                if t.id != order[pos + k] {
                    fail!("{}: position {} of the vector holds element #{}, the source presents #{} there (source order {:?}, {} already taken)", here(), k, t.id, order[pos + k], order, pos);
                }
            } else {
                match ledger::entry(t.id) {
                    Some(e) if e.from_default && e.val == t.val && e.st == St::Live => tail_defaults += 1,
                    e => fail!("{}: tail position {} holds #{} (val {:#x}) which is not a live Default-created element: {:?}", here(), k, t.id, t.val, e),
                }
            }
        }
        let _ = tail_defaults;
        pos += want_take;
        // ---- the source: exactly the elements not placed so far
        let left = len - pos;
        cx.count();
        match &stream {
            Stream::VecIt(it) => {
                if it.len() != left {
                    fail!("{}: the borrowed source has {} elements left, {} were not placed in a vector ({} pulled too many)", here(), it.len(), left, left as i64 - it.len() as i64);
                }
            }
            Stream::Deque(it) => {
                if it.len() != left {
                    fail!("{}: the borrowed source has {} elements left, {} were not placed in a vector", here(), it.len(), left);
                }
            }
            Stream::Own(s) => {
                if s.handed_out != pos || s.items.len() != left {
                    fail!("{}: the borrowed source handed out {} elements in total, {} were placed in vectors (left in the source: {}, want {})", here(), s.handed_out, pos, s.items.len(), left);
                }
            }
            Stream::VekPair(a, b) => {
                if a.len() + b.len() != left || a.size_hint().0 + b.size_hint().0 != left {
                    fail!("{}: the two borrowed vek iterators have {} + {} elements left, {} were not placed in a vector", here(), a.len(), b.len(), left);
                }
            }
            Stream::VekOne(a) => {
                if a.len() != left || a.size_hint() != (left, Some(left)) {
                    fail!("{}: the borrowed vek iterator has {} elements left (size_hint {:?}), {} were not placed in a vector", here(), a.len(), a.size_hint(), left);
                }
            }
        }
        // ---- the ledger: no source element dropped / yielded / cloned / observed by the conversion
        let after = ledger::totals();
        cx.count();
        if after.clones != before.clones || after.observed != before.observed {
            fail!("{}: the conversion cloned / observed elements: before {:?}, after {:?}", here(), before, after);
        }
        let es = ledger::entries();
        for (q, &id) in source_ids.iter().enumerate() {
            let e = es[id as usize];
            cx.count();
            let in_dropped_vector = dropped_vectors.contains(&id);
            let ok = if in_dropped_vector { e.st == St::Dropped && e.container_drops == 1 && e.yields == 0 } else { e.st == St::Live && e.container_drops == 0 && e.consumer_drops == 0 && e.yields == 0 };
            if !ok {
                let place = if q < pos { "was placed in a vector" } else { "must still be in the source" };
                fail!("{}: source element #{} (presented {}th; it {}) is not live any more - LOST between the source and the vector: {:?}", here(), id, q, place, e);
            }
        }
        // defaults: the ones that were overwritten are dropped exactly once, the ones in tails are live
        for (id, e) in es.iter().enumerate() {
            if e.from_default {
                cx.count();
                let fine = (e.st == St::Live && e.container_drops == 0) || (e.st == St::Dropped && e.container_drops == 1);
                if !fine || e.yields != 0 || e.clones != 0 {
                    fail!("{}: Default-created element #{} is neither live in a tail nor dropped exactly once: {:?}", here(), id, e);
                }
            }
        }
        // keep every other vector alive until the end, drop the others now
        if r % 2 == 1 {
            for k in 0..want_take {
                dropped_vectors.push(v.fld(k).id);
            }
            drop(v);
        } else {
            vectors.push(v);
        }
    }
    // ---- drain what is left through the same route and compare with the model
    let end = || format!("{} <- {} ({} elements) after {} round(s)", name, KINDS[kind], len, rounds);
    let mut rest: Vec<Tracked> = Vec::new();
    let drained = {
        let st = &mut stream;
        let rest = &mut rest;
        vkit::catch(move || {
            for _ in 0..2 * N + 8 {
                let x = match st {
                    Stream::VecIt(it) => it.next(),
                    Stream::Deque(it) => it.next_back(),
                    Stream::Own(s) => s.next(),
                    Stream::VekPair(a, b) => a.next().or_else(|| b.next()),
                    Stream::VekOne(a) => a.next(),
                };
                match x {
                    Some(t) => rest.push(t),
                    None => break,
                }
            }
        })
    };
    if let Err(m) = drained {
        fail!("{}: draining the source panicked: {}", end(), m);
    }
    let rest_ids: Vec<u32> = rest.iter().map(|t| t.id).collect();
    cx.count();
    if rest_ids[..] != order[pos..] {
        fail!("{}: the source still yields {:?}; the elements not placed in a vector are {:?}", end(), rest_ids, &order[pos..]);
    }
    for t in rest.drain(..) {
        ledger::yielded(&t);
        ledger::consume(t);
    }
    for t in pre_yielded.drain(..) {
        ledger::consume(t);
    }
    crate::settle_strict(cx, &end)?;
    drop(vectors);
    crate::settle_strict(cx, &end)?;
    cx.set_nontrivial(true);
    if let Stream::Own(s) = &stream {
        if s.calls_after_none > 0 {
            cx.label("source:next-called-again-after-None(not judged)");
        }
    }
    drop(stream);
    crate::all_dropped_once(cx, &|| format!("{} after dropping the source and every vector", end()))
}
