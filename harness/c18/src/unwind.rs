//! C18, the UNWINDING dimension: a user closure (or an element's own Default / Debug / Display / PartialEq / Ord /
//! Hash impl) PANICS at its k-th call while a consuming iterator is being driven, a vector / matrix is being mapped,
//! collected into or formatted.
//!
//! Asymmetric oracle (Rust's safety contract): after the panic has propagated and everything that survived has
//! been used up and dropped,
//!   * NO element was dropped more than once, handed out more than once, or dropped by the container after it had
//!     been handed out; no element was observed / read after it was yielded or dropped (ledger anomalies);
//!   * elements that were neither yielded nor dropped (LEAKED) are allowed and only counted (label);
//!   * the panic must actually propagate out of the operation (it may not be swallowed).
//! k runs from the first to the last closure call of the operation (the number of calls T is measured by running
//! the same generic code on the deque model, resp. known from the element count), from every cursor state.
//! The injected panic is raised by `ledger::tick` (message `ledger::INJECTED`) and caught with `vkit::catch`, i.e.
//! under the driver's panic hook, so an expected panic is never reported as an unexpected one; any OTHER panic
//! (or none) fails the case.

use crate::adapters::{self, finish, partial, Arg, MEl, Model, OOp, Variant};
use crate::ledger::{self, Ctx, St, Tracked, INJECTED};
use crate::observers::{hash_view, DEBUG_SPECS, DISPLAY_SPECS};
use crate::shapes::{MatOps, VecOps};
use crate::{explain, Guard};
use std::collections::VecDeque;
use std::fmt::{Debug, Display};
use std::hash::Hash;
use std::iter::FromIterator;
use std::sync::OnceLock;
use vkit::*;

/// The (operation, argument class) combinations driven under a panicking closure: every operation of the
/// adapters tables, with a reduced set of argument classes.
pub fn unwind_variants() -> &'static [Variant] {
    static V: OnceLock<Vec<Variant>> = OnceLock::new();
    V.get_or_init(|| {
        let a_ok = |a: Arg| matches!(a, Arg::Zero | Arg::Half | Arg::Rem | Arg::RemP1 | Arg::Both | Arg::Max);
        let b_ok = |b: Arg| matches!(b, Arg::Zero | Arg::One);
        let mut v: Vec<Variant> = Vec::new();
        for &x in adapters::single_variants().iter().chain(adapters::pair_variants()) {
            match x {
                Variant::P(_, a, b) | Variant::F(_, a, b) => {
                    if a_ok(a) && b_ok(b) {
                        v.push(x)
                    }
                }
                Variant::O(OOp::Debug { spec, sink }) => {
                    if matches!(spec, 0 | 1 | 18) && matches!(sink, 0 | 3) {
                        v.push(x)
                    }
                }
                Variant::O(OOp::Swap) => {}
                Variant::O(_) => v.push(x),
            }
        }
        v.push(Variant::O(OOp::Hash));
        v.push(Variant::O(OOp::Eq));
        v
    })
}

/// number of panic positions tried per (state, operation): all of them for the small dimensions
pub const fn kdim(n: u64) -> u64 {
    if n <= 4 {
        4 * n + 6
    } else {
        12
    }
}

pub fn unwind_iter_total(n: u64) -> u64 {
    adapters::n_states(n) * unwind_variants().len() as u64 * kdim(n)
}

struct Consumer {
    kept: Vec<Tracked>,
    cnt: usize,
    policy: u8,
}
impl Consumer {
    fn take(&mut self, t: Tracked) {
        ledger::yielded(&t);
        let keep = match self.policy {
            0 => false,
            1 => true,
            _ => self.cnt % 2 == 0,
        };
        self.cnt += 1;
        if keep {
            self.kept.push(t)
        } else {
            ledger::consume(t)
        }
        // the consumer's closure panics AFTER it has taken the element
        ledger::tick();
    }
}

/// which panic position to try: every one when they all fit, else spread from the first to the last call
fn pick_k(kidx: u64, kdim: u64, t: u64) -> Option<u64> {
    if t == 0 {
        None
    } else if t <= kdim {
        if kidx < t {
            Some(kidx + 1)
        } else {
            None
        }
    } else {
        Some(1 + kidx * (t - 1) / (kdim - 1))
    }
}

/// After the panic: use up and drop the survivors, then read the ledger.
fn verdict<I>(cx: &mut Cx, n: usize, survivors: Vec<Guard<I>>, con: &mut Consumer, at: &dyn Fn() -> String) -> CaseResult
where
    I: Iterator<Item = Tracked> + DoubleEndedIterator + ExactSizeIterator,
{
    for mut g in survivors {
        // the iterator survived a panic in the middle of one of its methods: it must still be SAFE to use
        // (whether it still makes sense is not judged: a panic of its own here is tolerated and labelled)
        let used = {
            let g = &mut g;
            let con = &mut *con;
            vkit::catch(move || {
                let mut pulled = 0usize;
                let mut front = true;
                while pulled <= 2 * n + 4 {
                    let x = if front { g.next() } else { g.next_back() };
                    front = !front;
                    match x {
                        Some(t) => {
                            ledger::yielded(&t);
                            if con.policy == 1 {
                                con.kept.push(t)
                            } else {
                                ledger::consume(t)
                            }
                            pulled += 1;
                        }
                        None => break,
                    }
                }
                pulled
            })
        };
        match used {
            Ok(p) => {
                cx.count();
                if p > n {
                    fail!("{}: after the panic the surviving iterator yields more than {} elements", at(), n);
                }
            }
            Err(_) => cx.label("unwind:survivor-panicked-when-used(not judged)"),
        }
        if g.finish().is_err() {
            cx.label("unwind:survivor-panicked-when-dropped(not judged)");
        }
    }
    for t in con.kept.drain(..) {
        ledger::consume(t);
    }
    ledger_verdict(cx, at)
}

fn ledger_verdict(cx: &mut Cx, at: &dyn Fn() -> String) -> CaseResult {
    cx.count();
    if let Some(a) = ledger::take_anomalies().first() {
        fail!("{}: after the closure panicked and everything that survived was dropped: {}", at(), explain(a));
    }
    let mut leaked = 0usize;
    for (id, e) in ledger::entries().iter().enumerate() {
        cx.count();
        if e.container_drops + e.consumer_drops > 1 || e.yields > 1 || e.clones > 0 {
            fail!("{}: element #{} was dropped / handed out more than once: {:?}", at(), id, e);
        }
        if e.st == St::Live {
            leaked += 1;
        }
    }
    cx.label(if leaked > 0 { "unwind:elements-leaked(allowed)" } else { "unwind:nothing-leaked" });
    Ok(())
}

fn expect_injected<T>(r: Result<T, String>, fired: bool, at: &dyn Fn() -> String) -> CaseResult {
    match r {
        Err(msg) if msg.contains(INJECTED) => Ok(()),
        Err(msg) => Err(Fail::Violation(format!("{}: a panic other than the injected one came out: {}", at(), msg))),
        Ok(_) if fired => Err(Fail::Violation(format!("{}: the closure's panic was SWALLOWED: the operation returned normally", at()))),
        Ok(_) => Err(Fail::Violation(format!("{}: the operation returned before the closure was called the k-th time (the std default calls it at least that often)", at()))),
    }
}

/// idx = (state * variants + variant) * kdim + kidx
pub fn unwind_iter_case<V: VecOps<N>, const N: usize>(idx: u64, cx: &mut Cx) -> CaseResult {
    ledger::reset();
    let n = N;
    let vs = unwind_variants();
    let kd = kdim(N as u64);
    let kidx = idx % kd;
    let vi = ((idx / kd) % vs.len() as u64) as usize;
    let si = idx / kd / vs.len() as u64;
    let (s1, e1) = adapters::state(n, si);
    // the second operand sits at another cursor position
    let (s2, e2) = if n >= 3 { (1, n - 1) } else { (1, n) };
    let variant = vs[vi];
    let policy = ((si + vi as u64) % 3) as u8;
    let mut it = Guard::new(V::build(&mut |k| ledger::fresh(1000 + k as u32)).into_it());
    let mut ot = Guard::new(V::build(&mut |k| ledger::fresh(1000 + k as u32)).into_it());
    let mut con = Consumer { kept: Vec::new(), cnt: 0, policy };
    // reach the cursor states (elements pulled here belong to the consumer)
    for (g, s, e) in [(&mut it, s1, e1), (&mut ot, s2, e2)] {
        for _ in 0..s {
            if let Some(t) = g.next() {
                ledger::yielded(&t);
                ledger::consume(t);
            }
        }
        for _ in 0..n - e {
            if let Some(t) = g.next_back() {
                ledger::yielded(&t);
                if policy == 1 { con.kept.push(t) } else { ledger::consume(t) }
            }
        }
    }
    let model = |s: usize, e: usize, base: usize| Model { q: (s..e).map(|k| MEl { id: (base + k) as u32, val: 1000 + k as u32 }).collect::<VecDeque<_>>() };
    let (rem, orem) = (e1 - s1, e2 - s2);
    let at = |k: u64, t: u64| format!("{} (n={}) first iterator at [{}..{}), second at [{}..{}), {:?} with the closure / element impl panicking at call {} of {}", V::NAME, n, s1, e1, s2, e2, variant, k, t);
    cx.label(if s1 == 0 && e1 == n { "state:untouched" } else if s1 == e1 { "state:exhausted" } else if s1 > 0 && e1 < n { "state:pulled-both-ends" } else { "state:pulled-one-end" });
    match variant {
        Variant::P(op, a, b) => {
            cx.label(op.name());
            let (av, bv) = (adapters::resolve(a, rem, orem), adapters::resolve(b, rem, orem));
            // T: run the same generic code on the model and count the calls
            ledger::reset_ticks();
            {
                let (mut m1, mut m2) = (model(s1, e1, 0), model(s2, e2, n));
                let mut sink = |_x: MEl| ledger::tick();
                let _ = partial(op, av, bv, &mut m1, &mut m2, &mut sink);
            }
            let t = ledger::ticks();
            let k = match pick_k(kidx, kd, t) {
                Some(k) => k,
                None => {
                    cx.label(if t == 0 { "unwind:operation-calls-no-closure" } else { "unwind:k-beyond-last-call" });
                    drop(it);
                    drop(ot);
                    return Ok(());
                }
            };
            sample!(cx, "{}", at(k, t));
            cx.label(if k == 1 { "panic:at-first-call" } else if k == t { "panic:at-last-call" } else { "panic:in-the-middle" });
            ledger::arm(k);
            let r = {
                let (x, y): (&mut V::It, &mut V::It) = (&mut *it, &mut *ot);
                let con = &mut con;
                vkit::catch(move || {
                    let mut sink = |t: Tracked| con.take(t);
                    partial(op, av, bv, x, y, &mut sink)
                })
            };
            let fired = ledger::disarm();
            expect_injected(r, fired, &|| at(k, t))?;
            cx.nontrivial();
            verdict(cx, n, vec![it, ot], &mut con, &|| at(k, t))
        }
        Variant::F(op, a, b) => {
            cx.label(op.name());
            let (av, bv) = (adapters::resolve(a, rem, orem), adapters::resolve(b, rem, orem));
            ledger::reset_ticks();
            {
                let mut sink = |_x: MEl| ledger::tick();
                let _ = finish(op, av, bv, model(s1, e1, 0), model(s2, e2, n), &mut sink);
            }
            let t = ledger::ticks();
            let k = match pick_k(kidx, kd, t) {
                Some(k) => k,
                None => {
                    cx.label(if t == 0 { "unwind:operation-calls-no-closure" } else { "unwind:k-beyond-last-call" });
                    drop(it);
                    drop(ot);
                    return Ok(());
                }
            };
            sample!(cx, "{}", at(k, t));
            cx.label(if k == 1 { "panic:at-first-call" } else if k == t { "panic:at-last-call" } else { "panic:in-the-middle" });
            let (x, y) = (it.into_inner(), ot.into_inner());
            ledger::arm(k);
            let r = {
                let con = &mut con;
                vkit::catch(move || {
                    let mut sink = |t: Tracked| con.take(t);
                    finish(op, av, bv, x, y, &mut sink)
                })
            };
            let fired = ledger::disarm();
            expect_injected(r, fired, &|| at(k, t))?;
            cx.nontrivial();
            verdict::<V::It>(cx, n, Vec::new(), &mut con, &|| at(k, t))
        }
        Variant::O(op) => {
            // the element's own trait impl panics while the iterator is being formatted / hashed / compared
            let (t, strict): (u64, bool) = match op {
                OOp::Debug { spec, .. } => ((rem * DEBUG_SPECS[spec as usize].reps) as u64, true),
                OOp::SelfEq => (rem as u64, true),
                OOp::FromIterSelf => (n as u64, true),
                OOp::Hash => (6 * rem as u64, false),
                OOp::Eq => (if rem == orem { rem as u64 } else { 0 }, false),
                _ => (0, false),
            };
            let k = match pick_k(kidx, kd, t) {
                Some(k) => k,
                None => {
                    cx.label(if t == 0 { "unwind:operation-calls-no-closure" } else { "unwind:k-beyond-last-call" });
                    drop(it);
                    drop(ot);
                    return Ok(());
                }
            };
            sample!(cx, "{}", at(k, t));
            cx.label("panic:in-an-element-trait-impl");
            ledger::arm(k);
            let r: Result<(), String> = {
                let (x, y): (&mut V::It, &mut V::It) = (&mut *it, &mut *ot);
                vkit::catch(move || match op {
                    OOp::Debug { spec, sink } => {
                        let sp = &DEBUG_SPECS[spec as usize];
                        ledger::with_ctx(Ctx::IterDebug, || {
                            if sink == 0 {
                                let mut s = String::new();
                                let _ = (sp.to_fmt)(&*x as &dyn Debug, &mut s);
                            } else {
                                let mut v: Vec<u8> = Vec::new();
                                let _ = (sp.to_io)(&*x as &dyn Debug, &mut v);
                            }
                        })
                    }
                    OOp::SelfEq => ledger::with_ctx(Ctx::IterEq, || {
                        let _ = *x == *x;
                    }),
                    OOp::Eq => ledger::with_ctx(Ctx::IterEq, || {
                        let _ = *x == *y;
                        let _ = *y != *x;
                    }),
                    OOp::Hash => ledger::with_ctx(Ctx::IterHash, || {
                        let _ = hash_view(&*x);
                    }),
                    OOp::FromIterSelf => {
                        let w = V::from_iter_(x);
                        drop(w);
                    }
                    _ => {}
                })
            };
            let fired = ledger::disarm();
            if strict || fired || r.is_err() {
                expect_injected(r, fired, &|| at(k, t))?;
                cx.nontrivial();
            } else {
                cx.label("unwind:fuse-not-reached(not judged)");
            }
            verdict(cx, n, vec![it, ot], &mut con, &|| at(k, t))
        }
    }
}

// ------------------------------------------------------------------------------------------------
// vectors: map / map2 / map3 / reduce / reduce_min / reduce_max / FromIterator / formatting / == / hash
// ------------------------------------------------------------------------------------------------

/// A source whose `next` ticks (so it can panic), for `FromIterator`.
struct TickSrc {
    items: VecDeque<Tracked>,
}
impl Iterator for TickSrc {
    type Item = Tracked;
    fn next(&mut self) -> Option<Tracked> {
        ledger::tick();
        self.items.pop_front()
    }
}

pub const VEC_UNWIND_KINDS: [&str; 16] = [
    "unwind:map(closure returns the element)",
    "unwind:map(closure consumes the element)",
    "unwind:map2",
    "unwind:map3",
    "unwind:reduce",
    "unwind:reduce_min(element Ord panics)",
    "unwind:reduce_max(element Ord panics)",
    "unwind:from_iter(owned source, n+2 elements; Default / next panics)",
    "unwind:from_iter(borrowed source, n+2 elements; Default / next panics)",
    "unwind:from_iter(borrowed source, n-1 elements; Default / next panics)",
    "unwind:Display(element Display panics)",
    "unwind:{:#?}(element Debug panics)",
    "unwind:==(element PartialEq panics)",
    "unwind:hash(element Hash panics)",
    "unwind:{:?} of as_slice()",
    "unwind:into_iter().map(closure).collect::<V>()",
];

pub fn vec_unwind_total(n: u64) -> u64 {
    VEC_UNWIND_KINDS.len() as u64 * (2 * n + 2)
}

pub fn vec_unwind_case<V, const N: usize>(idx: u64, cx: &mut Cx) -> CaseResult
where
    V: VecOps<N> + Debug + Display + Hash + PartialEq + FromIterator<Tracked>,
{
    ledger::reset();
    let n = N;
    let kmax = 2 * n as u64 + 2;
    let k = idx % kmax + 1;
    let kind = (idx / kmax) as usize;
    let t: u64 = match kind {
        0..=3 => n as u64,
        4..=6 => n as u64 - 1,
        7 | 8 => 2 * n as u64,
        9 => 2 * n as u64,
        10..=14 => n as u64,
        _ => 2 * n as u64, // n Defaults, then n closure calls
    };
    if k > t {
        cx.label("unwind:k-beyond-last-call");
        return Ok(());
    }
    cx.label(VEC_UNWIND_KINDS[kind]);
    cx.label(if k == 1 { "panic:at-first-call" } else if k == t { "panic:at-last-call" } else { "panic:in-the-middle" });
    let at = || format!("{} {} panicking at call {} of {}", V::NAME, VEC_UNWIND_KINDS[kind], k, t);
    sample!(cx, "{}", at());
    let mk = |off: usize| V::build(&mut |q| ledger::fresh((100 * off + q) as u32));
    let mut survivors: Vec<Tracked> = Vec::new(); // elements of a borrowed source after the panic
    let (r, fired): (Result<(), String>, bool) = match kind {
        0 => {
            let v = mk(1);
            armed(k, move || drop(v.map_tick()))
        }
        1 => {
            let v = mk(1);
            armed(k, move || drop(v.map_consume_tick()))
        }
        2 => {
            let (a, b) = (mk(1), mk(2));
            armed(k, move || drop(a.map2_tick(b)))
        }
        3 => {
            let (a, b, c) = (mk(1), mk(2), mk(3));
            armed(k, move || drop(a.map3_tick(b, c)))
        }
        4 => {
            let v = mk(1);
            armed(k, move || drop(v.reduce_tick()))
        }
        5 | 6 => {
            // values in an order that keeps both min and max moving
            let v = V::build(&mut |q| ledger::fresh(if q % 2 == 0 { 500 + q as u32 } else { 500 - q as u32 }));
            armed(k, move || drop(if kind == 5 { v.reduce_min_() } else { v.reduce_max_() }))
        }
        7 => {
            let src = TickSrc { items: (0..n + 2).map(|q| ledger::fresh(700 + q as u32)).collect() };
            armed(k, move || drop(V::from_iter(src)))
        }
        8 | 9 => {
            let len = if kind == 8 { n + 2 } else { n - 1 };
            let mut src = TickSrc { items: (0..len).map(|q| ledger::fresh(700 + q as u32)).collect() };
            let res = {
                let s = &mut src;
                armed(k, move || drop(V::from_iter(s)))
            };
            survivors.extend(src.items.drain(..));
            res
        }
        10 | 11 | 14 => {
            let v = mk(1);
            let res = armed(k, || {
                let mut s = String::new();
                use std::fmt::Write;
                let _ = match kind {
                    10 => (DISPLAY_SPECS[0].to_fmt)(&v as &dyn Display, &mut s),
                    11 => write!(s, "{:#?}", v),
                    _ => write!(s, "{:?}", v.view(0).slice),
                };
            });
            drop(v);
            res
        }
        12 => {
            let (a, b) = (mk(1), mk(1));
            let res = armed(k, || {
                let _ = a == b;
            });
            drop((a, b));
            res
        }
        13 => {
            let a = mk(1);
            let res = armed(k, || {
                let _ = crate::hash_of(&a);
            });
            drop(a);
            res
        }
        _ => {
            let v = mk(1);
            armed(k, move || {
                let w: V = v
                    .into_it()
                    .map(|t| {
                        ledger::tick();
                        t
                    })
                    .collect();
                drop(w)
            })
        }
    };
    expect_injected(r, fired, &at)?;
    cx.nontrivial();
    // a borrowed source survives: its remaining elements are still the consumer's to take
    for t in survivors.drain(..) {
        ledger::yielded(&t);
        ledger::consume(t);
    }
    ledger_verdict(cx, &at)
}

/// Run `f` with the fuse armed at k: (result under `vkit::catch`, did the injected panic fire).
fn armed<T>(k: u64, f: impl FnOnce() -> T) -> (Result<T, String>, bool) {
    ledger::arm(k);
    let r = vkit::catch(f);
    let fired = ledger::disarm();
    (r, fired)
}

// ------------------------------------------------------------------------------------------------
// matrices: map / map2 / map_rows|map_cols / Display / Debug
// ------------------------------------------------------------------------------------------------

pub const MAT_UNWIND_KINDS: [&str; 5] = ["unwind:mat.map", "unwind:mat.map2", "unwind:mat.map_rows/map_cols", "unwind:mat Display(element Display panics)", "unwind:mat {:#?}(element Debug panics)"];

pub fn mat_unwind_total(nn: u64) -> u64 {
    MAT_UNWIND_KINDS.len() as u64 * nn
}

pub fn mat_unwind_case<M, const N: usize, const NN: usize>(idx: u64, cx: &mut Cx) -> CaseResult
where
    M: MatOps<N, NN> + Debug + Display,
{
    ledger::reset();
    let k = idx % NN as u64 + 1;
    let kind = (idx / NN as u64) as usize;
    let t = if kind == 2 { N as u64 } else { NN as u64 };
    if k > t {
        cx.label("unwind:k-beyond-last-call");
        return Ok(());
    }
    cx.label(MAT_UNWIND_KINDS[kind]);
    cx.label(if k == 1 { "panic:at-first-call" } else if k == t { "panic:at-last-call" } else { "panic:in-the-middle" });
    let at = || format!("{} {} panicking at call {} of {}", M::NAME, MAT_UNWIND_KINDS[kind], k, t);
    sample!(cx, "{}", at());
    let mk = |off: u32| M::build(&mut |i, j| ledger::fresh(off + (10 * i + j) as u32));
    let m = mk(100);
    let (r, fired): (Result<(), String>, bool) = match kind {
        0 => armed(k, move || drop(m.map_tick())),
        1 => {
            let o = mk(200);
            armed(k, move || drop(m.map2_tick(o)))
        }
        2 => armed(k, move || drop(m.map_lines_tick())),
        _ => {
            let res = armed(k, || {
                let mut s = String::new();
                use std::fmt::Write;
                let _ = if kind == 3 { (DISPLAY_SPECS[0].to_fmt)(&m as &dyn Display, &mut s) } else { write!(s, "{:#?}", m) };
            });
            drop(m);
            res
        }
    };
    expect_injected(r, fired, &at)?;
    cx.nontrivial();
    ledger_verdict(cx, &at)
}
