//! Element types with an unusual LAYOUT: zero-sized, one byte, over-aligned (64), large (72 bytes).
//!
//! The ledger element `Tracked` is an ordinary 8-byte struct. Nothing in the property depends on the
//! element's size or alignment, but the code under it does pointer arithmetic on `*const T` and builds slices
//! with `from_raw_parts`, which is exactly where size_of::<T>() == 0, align_of::<T>() > size of a lane, or a
//! large element can be treated differently. Every case here runs the views, the consuming iterator, the array /
//! tuple / iterator conversions and map on all 13 vector types and the matrix array conversions on all 6 matrix
//! types, with one of four element types that count their own constructions and drops:
//!
//!   * `Z`   — zero-sized, has drop glue (cannot carry an id: judged by COUNTS: created == dropped, lengths)
//!   * `B1`  — one byte (id 0..=255)
//!   * `A64` — `#[repr(align(64))]`, 64 bytes
//!   * `Big` — 72 bytes, align 8
//!
//! Oracle: lengths of every view == element count; position k holds id k (id-carrying types); every element
//! constructed is dropped exactly once by the end of the case, never twice (per-id drop counts), never more
//! drops than constructions at any time (ZST).

use crate::shapes::Fields;
use std::cell::RefCell;
use std::fmt::Debug;
use vek::mat::repr_c::column_major as cm;
use vek::mat::repr_c::row_major as rm;
use vek::vec::repr_c::{Extent2, Extent3, Rgb, Rgba, Uv, Uvw, Vec16, Vec2, Vec3, Vec32, Vec4, Vec64, Vec8};
use vkit::*;

#[derive(Default)]
struct Reg {
    created: u64,
    dropped: u64,
    /// drops per id (id-carrying element types)
    per_id: Vec<u32>,
    /// a drop ran although created == dropped already (ZST: a drop of an element that does not exist)
    overdrop: bool,
    /// an id dropped twice within one epoch (ids are reused from one `mk()` to the next; 255 is the shared Default id)
    twice: Option<u32>,
    seen: u64,
}
thread_local! {
    static REG: RefCell<Reg> = RefCell::new(Reg::default());
}
fn reset() {
    REG.with(|r| *r.borrow_mut() = Reg::default());
}
fn created(id: Option<u32>) {
    REG.with(|r| {
        let mut r = r.borrow_mut();
        r.created += 1;
        if let Some(id) = id {
            let id = id as usize;
            if r.per_id.len() <= id { r.per_id.resize(id + 1, 0); }
        }
    });
}
fn dropped(id: Option<u32>) {
    REG.with(|r| {
        let mut r = r.borrow_mut();
        if r.dropped >= r.created { r.overdrop = true; }
        r.dropped += 1;
        if let Some(id) = id {
            let id = id as usize;
            if r.per_id.len() <= id { r.per_id.resize(id + 1, 0); }
            r.per_id[id] += 1;
            if r.per_id[id] > 1 && id != 255 && r.twice.is_none() { r.twice = Some(id as u32); }
        }
    });
}
/// the ids 0.. are about to be used again
fn epoch() {
    REG.with(|r| r.borrow_mut().per_id.clear());
}
fn seen() {
    REG.with(|r| r.borrow_mut().seen += 1);
}
fn take_seen() -> u64 {
    REG.with(|r| std::mem::take(&mut r.borrow_mut().seen))
}
fn counts() -> (u64, u64) {
    REG.with(|r| { let r = r.borrow(); (r.created, r.dropped) })
}

/// An element type that registers its constructions and drops. Neither Clone nor Copy.
pub trait El: Sized + Debug + 'static {
    const NAME: &'static str;
    /// ids are distinguishable (false for the ZST)
    const HAS_ID: bool;
    fn new(id: u32) -> Self;
    fn id(&self) -> Option<u32>;
}

pub struct Z(());
impl El for Z {
    const NAME: &'static str = "Z (zero-sized, drop glue)";
    const HAS_ID: bool = false;
    fn new(_id: u32) -> Self { created(None); Z(()) }
    fn id(&self) -> Option<u32> { None }
}
impl Drop for Z { fn drop(&mut self) { dropped(None); } }
impl Debug for Z { fn fmt(&self, f: &mut std::fmt::Formatter) -> std::fmt::Result { seen(); f.write_str("z") } }
impl Default for Z { fn default() -> Self { Z::new(0) } }

pub struct B1(u8);
impl El for B1 {
    const NAME: &'static str = "B1 (one byte)";
    const HAS_ID: bool = true;
    fn new(id: u32) -> Self { created(Some(id & 0xff)); B1(id as u8) }
    fn id(&self) -> Option<u32> { Some(self.0 as u32) }
}
impl Drop for B1 { fn drop(&mut self) { dropped(Some(self.0 as u32)); } }
impl Debug for B1 { fn fmt(&self, f: &mut std::fmt::Formatter) -> std::fmt::Result { seen(); write!(f, "b{}", self.0) } }
impl Default for B1 { fn default() -> Self { B1::new(255) } }

#[repr(align(64))]
pub struct A64(u32);
impl El for A64 {
    const NAME: &'static str = "A64 (align 64)";
    const HAS_ID: bool = true;
    fn new(id: u32) -> Self { created(Some(id)); A64(id) }
    fn id(&self) -> Option<u32> { Some(self.0) }
}
impl Drop for A64 { fn drop(&mut self) { dropped(Some(self.0)); } }
impl Debug for A64 { fn fmt(&self, f: &mut std::fmt::Formatter) -> std::fmt::Result { seen(); write!(f, "a{}", self.0) } }
impl Default for A64 { fn default() -> Self { A64::new(255) } }

pub struct Big([u64; 9]);
impl El for Big {
    const NAME: &'static str = "Big (72 bytes)";
    const HAS_ID: bool = true;
    fn new(id: u32) -> Self { created(Some(id)); Big([id as u64; 9]) }
    fn id(&self) -> Option<u32> { Some(self.0[8] as u32) }
}
impl Drop for Big { fn drop(&mut self) { dropped(Some(self.0[0] as u32)); } }
impl Debug for Big { fn fmt(&self, f: &mut std::fmt::Formatter) -> std::fmt::Result { seen(); write!(f, "B{}", self.0[4]) } }
impl Default for Big { fn default() -> Self { Big::new(255) } }

/// every constructed element dropped exactly once
fn settled<E: El>(cx: &mut Cx, what: &str) -> CaseResult {
    let (c, d, over, twice) = REG.with(|r| {
        let r = r.borrow();
        (r.created, r.dropped, r.overdrop, r.twice)
    });
    check!(cx, !over, "{} <{}>: a drop ran while no constructed element was left to drop", what, E::NAME);
    check!(cx, twice.is_none(), "{} <{}>: element {:?} was dropped more than once", what, E::NAME, twice);
    check_eq!(cx, d, c, "{} <{}>: elements dropped vs. constructed by the end of the case", what, E::NAME);
    Ok(())
}

fn ids_of<'a, E: El + 'a>(it: impl Iterator<Item = &'a E>) -> Vec<Option<u32>> {
    it.map(|e| e.id()).collect()
}
fn want_ids<E: El>(n: usize) -> Vec<Option<u32>> {
    (0..n).map(|k| if E::HAS_ID { Some(k as u32) } else { None }).collect()
}

pub const VEC_SUBS: u64 = 7;

macro_rules! zst_vec {
    ($name:ident, $V:ident, $n:expr) => {
        pub fn $name<E: El + Default>(sub: u64, cx: &mut Cx) -> CaseResult {
            const N: usize = $n;
            let vn = stringify!($V);
            reset();
            let mk = || { epoch(); <$V<E> as Fields<E>>::build(&mut |k| E::new(k as u32)) };
            sample!(cx, "{}<{}> sub-case {}", vn, E::NAME, sub);
            match sub {
                0 => {
                    // shared views: one entry per element, in declaration order
                    let v = mk();
                    check_eq!(cx, v.as_slice().len(), N, "{}<{}>::as_slice().len()", vn, E::NAME);
                    check_eq!(cx, v.len(), N, "{}<{}> Deref: len()", vn, E::NAME);
                    check_eq!(cx, <$V<E> as AsRef<[E]>>::as_ref(&v).len(), N, "{}<{}> AsRef<[T]>", vn, E::NAME);
                    check_eq!(cx, <$V<E> as std::borrow::Borrow<[E]>>::borrow(&v).len(), N, "{}<{}> Borrow<[T]>", vn, E::NAME);
                    check_eq!(cx, v.iter().count(), N, "{}<{}>::iter().count()", vn, E::NAME);
                    check_eq!(cx, (&v).into_iter().count(), N, "(&{}<{}>).into_iter().count()", vn, E::NAME);
                    check_eq!(cx, v.iter().len(), N, "{}<{}>::iter().len()", vn, E::NAME);
                    check!(cx, v.get(N - 1).is_some(), "{}<{}>: v.get({}) is None", vn, E::NAME, N - 1);
                    check!(cx, v.get(N).is_none(), "{}<{}>: v.get({}) is Some", vn, E::NAME, N);
                    check!(cx, v.first().is_some() && v.last().is_some(), "{}<{}>: first() / last()", vn, E::NAME);
                    check_eq!(cx, ids_of(v.as_slice().iter()), want_ids::<E>(N), "{}<{}>::as_slice() ids", vn, E::NAME);
                    check_eq!(cx, ids_of(v.iter()), want_ids::<E>(N), "{}<{}>::iter() ids", vn, E::NAME);
                    check_eq!(cx, v[N - 1].id(), want_ids::<E>(N)[N - 1], "{}<{}>: v[{}]", vn, E::NAME, N - 1);
                    // every entry of the view lies inside the value
                    let base = &v as *const _ as usize;
                    let size = std::mem::size_of::<$V<E>>();
                    for (k, e) in v.as_slice().iter().enumerate() {
                        let a = e as *const E as usize;
                        check!(cx, a >= base && a + std::mem::size_of::<E>() <= base + size, "{}<{}>: slice entry {} lies outside the vector's own storage", vn, E::NAME, k);
                        check_eq!(cx, a, <$V<E> as Fields<E>>::fld(&v, k) as *const E as usize, "{}<{}>: slice entry {} is not field {}", vn, E::NAME, k, k);
                    }
                    take_seen();
                    let text = format!("{:?}", v);
                    check_eq!(cx, take_seen(), N as u64, "{}<{}>: elements formatted by {{:?}} ({})", vn, E::NAME, text);
                    let c = counts();
                    check_eq!(cx, c, (N as u64, 0), "{}<{}>: (constructed, dropped) while the vector is only borrowed", vn, E::NAME);
                    drop(v);
                }
                1 => {
                    // mutable views
                    let mut v = mk();
                    check_eq!(cx, v.as_mut_slice().len(), N, "{}<{}>::as_mut_slice().len()", vn, E::NAME);
                    check_eq!(cx, <$V<E> as AsMut<[E]>>::as_mut(&mut v).len(), N, "{}<{}> AsMut<[T]>", vn, E::NAME);
                    check_eq!(cx, <$V<E> as std::borrow::BorrowMut<[E]>>::borrow_mut(&mut v).len(), N, "{}<{}> BorrowMut<[T]>", vn, E::NAME);
                    check_eq!(cx, v.iter_mut().count(), N, "{}<{}>::iter_mut().count()", vn, E::NAME);
                    check_eq!(cx, (&mut v).into_iter().count(), N, "(&mut {}<{}>).into_iter().count()", vn, E::NAME);
                    check!(cx, v.get_mut(N - 1).is_some() && v.get_mut(N).is_none(), "{}<{}>: get_mut at {} / {}", vn, E::NAME, N - 1, N);
                    // replace the last element through the view: the old one is handed out, the new one is in the field
                    let old = std::mem::replace(&mut v.as_mut_slice()[N - 1], E::new(200));
                    check_eq!(cx, old.id(), want_ids::<E>(N)[N - 1], "{}<{}>: element taken out of as_mut_slice()[{}]", vn, E::NAME, N - 1);
                    check_eq!(cx, <$V<E> as Fields<E>>::fld(&v, N - 1).id(), if E::HAS_ID { Some(200) } else { None }, "{}<{}>: field {} after writing through the view", vn, E::NAME, N - 1);
                    drop(old);
                    v.reverse();
                    check_eq!(cx, <$V<E> as Fields<E>>::fld(&v, N - 1).id(), want_ids::<E>(N)[0], "{}<{}>: field {} after reverse() through DerefMut", vn, E::NAME, N - 1);
                    drop(v);
                }
                2 => {
                    // consuming iterator: every (front pulls, back pulls) split; len, Debug looks at the live ones only
                    for f in 0..=N {
                        for b in 0..=(N - f) {
                            if N > 8 && !(f <= 1 || b <= 1 || f + b >= N - 1) { continue; }
                            let before = counts();
                            let mut it = mk().into_iter();
                            check_eq!(cx, it.len(), N, "{}<{}>::into_iter().len()", vn, E::NAME);
                            let mut got = Vec::new();
                            for _ in 0..f {
                                match it.next() { Some(e) => got.push(e), None => fail!("{}<{}> IntoIter: next() is None with {} elements left", vn, E::NAME, it.len()) }
                            }
                            let mut back = Vec::new();
                            for _ in 0..b {
                                match it.next_back() { Some(e) => back.push(e), None => fail!("{}<{}> IntoIter: next_back() is None with {} elements left", vn, E::NAME, it.len()) }
                            }
                            check_eq!(cx, it.len(), N - f - b, "{}<{}> IntoIter::len() after {} next and {} next_back", vn, E::NAME, f, b);
                            check_eq!(cx, it.size_hint(), (N - f - b, Some(N - f - b)), "{}<{}> IntoIter::size_hint() after {} next and {} next_back", vn, E::NAME, f, b);
                            check_eq!(cx, ids_of(got.iter()), want_ids::<E>(N)[..f].to_vec(), "{}<{}> IntoIter: elements from the front", vn, E::NAME);
                            let mut wb = want_ids::<E>(N)[N - b..].to_vec();
                            wb.reverse();
                            check_eq!(cx, ids_of(back.iter()), wb, "{}<{}> IntoIter: elements from the back", vn, E::NAME);
                            take_seen();
                            let _ = format!("{:?}", it);
                            check_eq!(cx, take_seen(), (N - f - b) as u64, "{}<{}> IntoIter {{:?}} after {} next and {} next_back: elements looked at", vn, E::NAME, f, b);
                            let now = counts();
                            check_eq!(cx, now.1 - before.1, 0, "{}<{}> IntoIter: drops while every element is held by the iterator or the consumer", vn, E::NAME);
                            if (f + b) % 2 == 0 {
                                drop(it);
                                check_eq!(cx, counts().1 - before.1, (N - f - b) as u64, "{}<{}> IntoIter: elements dropped with the iterator after {} next and {} next_back", vn, E::NAME, f, b);
                            } else {
                                // drain instead
                                let rest: Vec<E> = it.collect();
                                check_eq!(cx, rest.len(), N - f - b, "{}<{}> IntoIter: elements still yielded after {} next and {} next_back", vn, E::NAME, f, b);
                                check_eq!(cx, ids_of(rest.iter()), want_ids::<E>(N)[f..N - b].to_vec(), "{}<{}> IntoIter: remaining elements", vn, E::NAME);
                            }
                            drop(got);
                            drop(back);
                            check_eq!(cx, counts().1 - before.1, N as u64, "{}<{}> IntoIter: drops by the end of the history ({} next, {} next_back)", vn, E::NAME, f, b);
                        }
                    }
                }
                3 => {
                    // arrays and tuples
                    let a: [E; N] = mk().into_array();
                    check_eq!(cx, ids_of(a.iter()), want_ids::<E>(N), "{}<{}>::into_array()", vn, E::NAME);
                    check_eq!(cx, counts(), (N as u64, 0), "{}<{}>::into_array(): (constructed, dropped)", vn, E::NAME);
                    let v = <$V<E> as From<[E; N]>>::from(a);
                    check_eq!(cx, ids_of((0..N).map(|k| <$V<E> as Fields<E>>::fld(&v, k))), want_ids::<E>(N), "{}<{}>::from([T; N])", vn, E::NAME);
                    check_eq!(cx, counts(), (N as u64, 0), "{}<{}>::from([T; N]): (constructed, dropped)", vn, E::NAME);
                    let a2: [E; N] = v.into_array();
                    check_eq!(cx, ids_of(a2.iter()), want_ids::<E>(N), "<[T; N]>::from({}<{}>)", vn, E::NAME);
                    drop(a2);
                    let t = mk().into_tuple();
                    let v2 = <$V<E> as From<_>>::from(t);
                    check_eq!(cx, ids_of((0..N).map(|k| <$V<E> as Fields<E>>::fld(&v2, k))), want_ids::<E>(N), "{}<{}>: into_tuple() then From<tuple>", vn, E::NAME);
                    drop(v2);
                }
                4 => {
                    // FromIterator with every source length 0..=N+2 (tail Default-filled, surplus stays in the source)
                    for m in 0..=N + 2 {
                        let before = counts();
                        epoch();
                        let mut src = (0..m).map(|k| E::new(k as u32)).collect::<Vec<E>>().into_iter();
                        let v: $V<E> = src.by_ref().collect();
                        check_eq!(cx, v.as_slice().len(), N, "{}<{}>: collect() of {} elements, as_slice().len()", vn, E::NAME, m);
                        for k in 0..N.min(m) {
                            check_eq!(cx, <$V<E> as Fields<E>>::fld(&v, k).id(), want_ids::<E>(N)[k], "{}<{}>: collect() of {} elements, field {}", vn, E::NAME, m, k);
                        }
                        check_eq!(cx, src.len(), m.saturating_sub(N), "{}<{}>: collect() of {} elements, left in the source", vn, E::NAME, m);
                        let made = counts().0 - before.0;
                        // an implementation may start from Default values and overwrite them (extra constructions are free);
                        // conservation: what was constructed and is neither in the vector nor left in the source was dropped
                        check!(cx, made >= (m + N.saturating_sub(m)) as u64, "{}<{}>: collect() of {} elements: only {} elements constructed (source + Default tail need {})", vn, E::NAME, m, made, m + N.saturating_sub(m));
                        check_eq!(cx, counts().1 - before.1, made - N.max(m) as u64, "{}<{}>: collect() of {} elements: drops during collect (constructed {} - in the vector {} - left in the source {})", vn, E::NAME, m, made, N, m.saturating_sub(N));
                        drop(v);
                        drop(src);
                        check_eq!(cx, counts().1 - before.1, made, "{}<{}>: collect() of {} elements: drops by the end", vn, E::NAME, m);
                    }
                }
                5 => {
                    // map (identity and consuming), zip / map2
                    let v = mk().map(|e| e);
                    check_eq!(cx, ids_of((0..N).map(|k| <$V<E> as Fields<E>>::fld(&v, k))), want_ids::<E>(N), "{}<{}>::map(identity)", vn, E::NAME);
                    check_eq!(cx, counts(), (N as u64, 0), "{}<{}>::map(identity): (constructed, dropped)", vn, E::NAME);
                    let ids = v.map(|e| e.id());
                    check_eq!(cx, (0..N).map(|k| *<$V<Option<u32>> as Fields<_>>::fld(&ids, k)).collect::<Vec<_>>(), want_ids::<E>(N), "{}<{}>::map(consuming)", vn, E::NAME);
                    check_eq!(cx, counts(), (N as u64, N as u64), "{}<{}>::map(consuming): (constructed, dropped)", vn, E::NAME);
                    let p = mk().zip(<$V<E> as Fields<E>>::build(&mut |k| E::new(100 + k as u32)));
                    for k in 0..N {
                        let (a, b) = <$V<(E, E)> as Fields<_>>::fld(&p, k);
                        check_eq!(cx, (a.id(), b.id()), (want_ids::<E>(N)[k], want_ids::<E>(N)[k].map(|i| i + 100)), "{}<{}>::zip, position {}", vn, E::NAME, k);
                    }
                    check_eq!(cx, p.as_slice().len(), N, "{}<({}, same)>::as_slice().len()", vn, E::NAME);
                    drop(p);
                }
                _ => {
                    // vectors of unit and of empty arrays (zero-sized WITHOUT drop glue, Copy): views and iterator lengths
                    let u = <$V<()> as Fields<()>>::build(&mut |_| ());
                    check_eq!(cx, u.as_slice().len(), N, "{}<()>::as_slice().len()", vn);
                    check_eq!(cx, u.iter().count(), N, "{}<()>::iter().count()", vn);
                    check_eq!(cx, u.into_iter().count(), N, "{}<()>::into_iter().count()", vn);
                    let a: [(); N] = u.into_array();
                    check_eq!(cx, a.len(), N, "{}<()>::into_array().len()", vn);
                    let w = <$V<[u64; 0]> as Fields<[u64; 0]>>::build(&mut |_| []);
                    check_eq!(cx, w.as_slice().len(), N, "{}<[u64; 0]>::as_slice().len()", vn);
                    check_eq!(cx, w.into_iter().len(), N, "{}<[u64; 0]>::into_iter().len()", vn);
                    let b = $V::<()>::broadcast(());
                    check_eq!(cx, b.len(), N, "{}::<()>::broadcast(()).len()", vn);
                    let ph = <$V<std::marker::PhantomData<String>> as Fields<_>>::build(&mut |_| std::marker::PhantomData);
                    check_eq!(cx, ph.iter().count(), N, "{}<PhantomData<String>>::iter().count()", vn);
                }
            }
            cx.label(E::NAME);
            cx.label(["views", "mutable-views", "into-iter-splits", "arrays-tuples", "from-iterator", "map-zip", "unit-elements"][sub as usize]);
            cx.nontrivial();
            settled::<E>(cx, vn)
        }
    };
}
zst_vec!(v_vec2, Vec2, 2);
zst_vec!(v_vec3, Vec3, 3);
zst_vec!(v_vec4, Vec4, 4);
zst_vec!(v_vec8, Vec8, 8);
zst_vec!(v_vec16, Vec16, 16);
zst_vec!(v_vec32, Vec32, 32);
zst_vec!(v_vec64, Vec64, 64);
zst_vec!(v_extent2, Extent2, 2);
zst_vec!(v_extent3, Extent3, 3);
zst_vec!(v_rgb, Rgb, 3);
zst_vec!(v_rgba, Rgba, 4);
zst_vec!(v_uv, Uv, 2);
zst_vec!(v_uvw, Uvw, 3);

pub const MAT_SUBS: u64 = 4;

macro_rules! zst_mat {
    ($name:ident, $layout:ident, $field:ident, $Mat:ident, $V:ident, $n:expr, $nn:expr, $row_major:expr) => {
        pub fn $name<E: El>(sub: u64, cx: &mut Cx) -> CaseResult {
            const N: usize = $n;
            const NN: usize = $nn;
            let mn = concat!(stringify!($layout), "::", stringify!($Mat));
            reset();
            // element (i, j) has id i * N + j whatever the layout; built through the public field
            let mk = || { epoch(); $layout::$Mat { $field: <$V<$V<E>> as Fields<_>>::build(&mut |a| <$V<E> as Fields<_>>::build(&mut |b| { let (i, j) = if $row_major { (a, b) } else { (b, a) }; E::new((i * N + j) as u32) })) } };
            let row_ids: Vec<Option<u32>> = want_ids::<E>(NN);
            let col_ids: Vec<Option<u32>> = (0..NN).map(|q| if E::HAS_ID { Some(((q % N) * N + q / N) as u32) } else { None }).collect();
            sample!(cx, "{}<{}> sub-case {}", mn, E::NAME, sub);
            match sub {
                0 => {
                    let a: [E; NN] = mk().into_row_array();
                    check_eq!(cx, ids_of(a.iter()), row_ids, "{}<{}>::into_row_array()", mn, E::NAME);
                    check_eq!(cx, counts(), (NN as u64, 0), "{}<{}>::into_row_array(): (constructed, dropped)", mn, E::NAME);
                    let m = $layout::$Mat::<E>::from_row_array(a);
                    let c: [E; NN] = m.into_col_array();
                    check_eq!(cx, ids_of(c.iter()), col_ids, "{}<{}>: from_row_array then into_col_array", mn, E::NAME);
                    check_eq!(cx, counts(), (NN as u64, 0), "{}<{}>: from_row_array then into_col_array: (constructed, dropped)", mn, E::NAME);
                    let m = $layout::$Mat::<E>::from_col_array(c);
                    let a: [E; NN] = m.into_row_array();
                    check_eq!(cx, ids_of(a.iter()), row_ids, "{}<{}>: from_col_array then into_row_array", mn, E::NAME);
                    drop(a);
                }
                1 => {
                    let a: [[E; N]; N] = mk().into_row_arrays();
                    check_eq!(cx, ids_of(a.iter().flatten()), row_ids, "{}<{}>::into_row_arrays()", mn, E::NAME);
                    let m = $layout::$Mat::<E>::from_row_arrays(a);
                    let c: [[E; N]; N] = m.into_col_arrays();
                    check_eq!(cx, ids_of(c.iter().flatten()), col_ids, "{}<{}>: from_row_arrays then into_col_arrays", mn, E::NAME);
                    check_eq!(cx, counts(), (NN as u64, 0), "{}<{}>: nested array conversions: (constructed, dropped)", mn, E::NAME);
                    let m = $layout::$Mat::<E>::from_col_arrays(c);
                    let a: [E; NN] = m.into_row_array();
                    check_eq!(cx, ids_of(a.iter()), row_ids, "{}<{}>: from_col_arrays then into_row_array", mn, E::NAME);
                    drop(a);
                }
                2 => {
                    let t = mk().transposed();
                    let a: [E; NN] = t.into_row_array();
                    check_eq!(cx, ids_of(a.iter()), col_ids, "{}<{}>: transposed() then into_row_array", mn, E::NAME);
                    check_eq!(cx, counts(), (NN as u64, 0), "{}<{}>::transposed(): (constructed, dropped)", mn, E::NAME);
                    drop(a);
                    let mut m = mk();
                    m.transpose();
                    let a: [E; NN] = m.into_col_array();
                    check_eq!(cx, ids_of(a.iter()), row_ids, "{}<{}>: transpose() then into_col_array", mn, E::NAME);
                    drop(a);
                    let m = mk().map(|e| e);
                    let a: [E; NN] = m.into_row_array();
                    check_eq!(cx, ids_of(a.iter()), row_ids, "{}<{}>: map(identity) then into_row_array", mn, E::NAME);
                    drop(a);
                }
                _ => {
                    // the slice view in the native order, and the lines as vectors
                    let m = mk();
                    let lines = &m.$field;
                    check_eq!(cx, lines.as_slice().len(), N, "{}<{}>: lines.as_slice().len()", mn, E::NAME);
                    for l in lines.iter() {
                        check_eq!(cx, l.as_slice().len(), N, "{}<{}>: line.as_slice().len()", mn, E::NAME);
                    }
                    check_eq!(cx, ids_of(lines.iter().flat_map(|l| l.iter())), if $row_major { row_ids.clone() } else { col_ids.clone() }, "{}<{}>: elements line by line", mn, E::NAME);
                    take_seen();
                    let _ = format!("{:?}", m);
                    check_eq!(cx, take_seen(), NN as u64, "{}<{}>: elements formatted by {{:?}}", mn, E::NAME);
                    let d = m.diagonal();
                    check_eq!(cx, ids_of(d.iter()), (0..N).map(|k| if E::HAS_ID { Some((k * N + k) as u32) } else { None }).collect::<Vec<_>>(), "{}<{}>::diagonal()", mn, E::NAME);
                    check_eq!(cx, counts(), (NN as u64, (NN - N) as u64), "{}<{}>::diagonal(): (constructed, dropped: the off-diagonal elements)", mn, E::NAME);
                    drop(d);
                }
            }
            cx.label(E::NAME);
            cx.label(["flat-arrays", "nested-arrays", "transpose-map", "lines-debug-diagonal"][sub as usize]);
            cx.nontrivial();
            settled::<E>(cx, mn)
        }
    };
}
zst_mat!(m_row2, rm, rows, Mat2, Vec2, 2, 4, true);
zst_mat!(m_col2, cm, cols, Mat2, Vec2, 2, 4, false);
zst_mat!(m_row3, rm, rows, Mat3, Vec3, 3, 9, true);
zst_mat!(m_col3, cm, cols, Mat3, Vec3, 3, 9, false);
zst_mat!(m_row4, rm, rows, Mat4, Vec4, 4, 16, true);
zst_mat!(m_col4, cm, cols, Mat4, Vec4, 4, 16, false);

pub const ELS: u64 = 4;
pub const TOTAL: u64 = ELS * (13 * VEC_SUBS + 6 * MAT_SUBS);

type F = fn(u64, &mut Cx) -> CaseResult;

/// idx = el * (13 * VEC_SUBS + 6 * MAT_SUBS) + kind
pub fn layout_case(idx: u64, cx: &mut Cx) -> CaseResult {
    let per = 13 * VEC_SUBS + 6 * MAT_SUBS;
    let (el, k) = (idx / per, idx % per);
    macro_rules! tab {
        ($E:ty) => {{
            let v: [F; 13] = [v_vec2::<$E>, v_vec3::<$E>, v_vec4::<$E>, v_vec8::<$E>, v_vec16::<$E>, v_vec32::<$E>, v_vec64::<$E>, v_extent2::<$E>, v_extent3::<$E>, v_rgb::<$E>, v_rgba::<$E>, v_uv::<$E>, v_uvw::<$E>];
            let m: [F; 6] = [m_row2::<$E>, m_col2::<$E>, m_row3::<$E>, m_col3::<$E>, m_row4::<$E>, m_col4::<$E>];
            if k < 13 * VEC_SUBS { (v[(k / VEC_SUBS) as usize])(k % VEC_SUBS, cx) } else { let k = k - 13 * VEC_SUBS; (m[(k / MAT_SUBS) as usize])(k % MAT_SUBS, cx) }
        }};
    }
    match el {
        0 => tab!(Z),
        1 => tab!(B1),
        2 => tab!(A64),
        _ => tab!(Big),
    }
}
