//! Colour helpers for every `ColorComponent` type.

use crate::cs::*;
use num_traits::Zero;
use std::fmt::Debug;
use std::num::Wrapping;
use std::ops::Sub;
use vek::ops::ColorComponent;
use vek::vec::repr_c::{Rgb, Rgba, Vec3};
use vkit::*;

/// What `full − c` is by definition in the component type.
pub enum Inv<T> {
    Exact(T),
    /// not representable in a checked integer type; `.0` is the two's complement wrap-around
    Overflow(T),
}
/// What `(r+g+b)/3` is by definition in the component type.
pub enum AvgWant<T> {
    /// integer: no partial sum (left to right) leaves the type; truncating division
    Exact(T),
    /// integer: r+g or (r+g)+b overflows the type (documented: "integer overflows cause panics in debug mode");
    /// `.0` is the wrapped result an unchecked build would produce, `.1` says whether the exact total still fits,
    /// `.2` is the mathematically exact truncated average (always representable), which an overflow-free implementation returns
    Overflow(T, bool, T),
    /// float: value computed in f64, tolerance
    Approx(f64, f64),
}
pub struct AvgGot<T> {
    pub rgb: Result<T, String>,
    pub rgba: Result<T, String>,
    pub want: AvgWant<T>,
}

pub trait Comp: ColorComponent + Copy + PartialEq + Debug + Sub<Output = Self> + 'static {
    const NAME: &'static str;
    const IS_FLOAT: bool;
    fn gen(t: &mut Tape) -> Self;
    /// MAX for integers, 1 for floats — from std, never from vek
    fn full_want() -> Self;
    fn zero_want() -> Self;
    fn inv_want(c: Self) -> Inv<Self>;
    fn to_f64(self) -> f64;
    /// `average_rgb` of Rgb(r,g,b) and Rgba(r,g,b,a) as computed by vek, plus the oracle; None when the
    /// component type does not satisfy the bounds of `average_rgb` (no `From<u8>`).
    fn avg(_r: Self, _g: Self, _b: Self, _a: Self) -> Option<AvgGot<Self>> {
        None
    }
}

fn gen_int(t: &mut Tape, min: i128, max: i128) -> i128 {
    let span = max - min + 1;
    let v = match t.below(10) {
        0 => t.below(4) as i128,
        1 => max - t.below(3) as i128,
        2 => min + t.below(3) as i128,
        3 => max / 2 + t.int(-1, 1) as i128,
        4 | 5 => max / 3 + t.int(-2, 2) as i128,
        6 => t.below(256) as i128,
        _ => t.u64() as i128,
    };
    let v = min + (v - min).rem_euclid(span);
    // colour components live in [zero, full]: keep most signed draws non-negative (MIN <-> MAX, -1 <-> 0)
    if v < 0 && t.chance(200) { -(v + 1) } else { v }
}

fn gen_float(t: &mut Tape) -> f64 {
    match t.below(8) {
        0 => t.pick(&[0.0, 1.0, 0.5, 0.25, 0.75]),
        1 | 2 => t.below(256) as f64 / 256.0 + t.below(2) as f64 / 512.0,
        3 | 4 | 5 => t.range_f64(0.0, 1.0),
        6 => t.pick(&[1.0 / 3.0, 2.0 / 3.0, 0.1, 0.2, 0.9]),
        _ => t.range_f64(-2.0, 3.0),
    }
}

macro_rules! int_avg {
    (yes, $T:ident) => {
        fn avg(r: $T, g: $T, b: $T, a: $T) -> Option<AvgGot<$T>> {
            let (lo, hi) = ($T::MIN as i128, $T::MAX as i128);
            let s1 = r as i128 + g as i128;
            let s2 = s1 + b as i128;
            let fits = |x: i128| x >= lo && x <= hi;
            let want = if fits(s1) && fits(s2) {
                AvgWant::Exact((s2 / 3) as $T)
            } else {
                AvgWant::Overflow(r.wrapping_add(g).wrapping_add(b) / 3, fits(s2), (s2 / 3) as $T)
            };
            Some(AvgGot {
                rgb: vkit::catch(|| Rgb { r, g, b }.average_rgb()),
                rgba: vkit::catch(|| Rgba { r, g, b, a }.average_rgb()),
                want,
            })
        }
    };
    (no, $T:ident) => {};
}

macro_rules! comp_int {
    ($($T:ident $avg:ident),*) => {$(
        impl Comp for $T {
            const NAME: &'static str = stringify!($T);
            const IS_FLOAT: bool = false;
            fn gen(t: &mut Tape) -> $T {
                gen_int(t, $T::MIN as i128, $T::MAX as i128) as $T
            }
            fn full_want() -> $T {
                $T::MAX
            }
            fn zero_want() -> $T {
                0
            }
            fn inv_want(c: $T) -> Inv<$T> {
                let e = $T::MAX as i128 - c as i128;
                if e > $T::MAX as i128 || e < $T::MIN as i128 { Inv::Overflow(e as $T) } else { Inv::Exact(e as $T) }
            }
            fn to_f64(self) -> f64 {
                self as f64
            }
            int_avg!($avg, $T);
        }
        impl Comp for Wrapping<$T> {
            const NAME: &'static str = concat!("Wrapping<", stringify!($T), ">");
            const IS_FLOAT: bool = false;
            fn gen(t: &mut Tape) -> Self {
                Wrapping(gen_int(t, $T::MIN as i128, $T::MAX as i128) as $T)
            }
            fn full_want() -> Self {
                Wrapping($T::MAX)
            }
            fn zero_want() -> Self {
                Wrapping(0)
            }
            fn inv_want(c: Self) -> Inv<Self> {
                // modular arithmetic is the definition of `-` in Wrapping<_>
                Inv::Exact(Wrapping(($T::MAX as i128 - c.0 as i128) as $T))
            }
            fn to_f64(self) -> f64 {
                self.0 as f64
            }
        }
    )*};
}
// `average_rgb` needs `T: From<u8>`: i8 and the Wrapping forms do not have it.
comp_int!(u8 yes, u16 yes, u32 yes, u64 yes, i8 no, i16 yes, i32 yes, i64 yes);

macro_rules! comp_float {
    ($($T:ident),*) => {$(
        impl Comp for $T {
            const NAME: &'static str = stringify!($T);
            const IS_FLOAT: bool = true;
            fn gen(t: &mut Tape) -> $T {
                gen_float(t) as $T
            }
            fn full_want() -> $T {
                1.0
            }
            fn zero_want() -> $T {
                0.0
            }
            fn inv_want(c: $T) -> Inv<$T> {
                // a single correctly rounded IEEE subtraction
                Inv::Exact(1.0 - c)
            }
            fn to_f64(self) -> f64 {
                self as f64
            }
            fn avg(r: $T, g: $T, b: $T, a: $T) -> Option<AvgGot<$T>> {
                let want = (r as f64 + g as f64 + b as f64) / 3.0;
                let m = (r.abs().max(g.abs()).max(b.abs()) as f64).max(1.0);
                Some(AvgGot {
                    rgb: vkit::catch(|| Rgb { r, g, b }.average_rgb()),
                    rgba: vkit::catch(|| Rgba { r, g, b, a }.average_rgb()),
                    want: AvgWant::Approx(want, 4.0 * $T::EPSILON as f64 * m),
                })
            }
        }
    )*};
}
comp_float!(f32, f64);

fn eps_of<T: Comp>() -> f64 {
    if T::NAME == "f32" { f32::EPSILON as f64 } else { f64::EPSILON }
}

/// Named colours, on any component type: every channel is exactly `zero` or `full`.
pub fn named_colours<T: ColorComponent + Copy + PartialEq + Debug>(cx: &mut Cx, ty: &str, z: T, f: T, g: T) -> CaseResult {
    check_eq!(cx, T::full(), f, "<{} as ColorComponent>::full()", ty);
    check_eq!(cx, <T as Zero>::zero(), z, "<{} as Zero>::zero()", ty);
    check!(cx, z != f, "{}: zero and full coincide", ty);
    macro_rules! both {
        ($name:ident, $r:expr, $g:expr, $b:expr) => {
            check_eq!(cx, Rgb::<T>::$name().rd(), [$r, $g, $b], "Rgb::<{}>::{}()", ty, stringify!($name));
            check_eq!(cx, Rgba::<T>::$name().rd(), [$r, $g, $b, f], "Rgba::<{}>::{}()", ty, stringify!($name));
        };
    }
    both!(black, z, z, z);
    both!(white, f, f, f);
    both!(red, f, z, z);
    both!(green, z, f, z);
    both!(blue, z, z, f);
    both!(cyan, z, f, f);
    both!(magenta, f, z, f);
    both!(yellow, f, f, z);
    check_eq!(cx, Rgb::<T>::gray(g).rd(), [g, g, g], "Rgb::<{}>::gray({:?})", ty, g);
    check_eq!(cx, Rgb::<T>::grey(g).rd(), [g, g, g], "Rgb::<{}>::grey({:?})", ty, g);
    check_eq!(cx, Rgba::<T>::gray(g).rd(), [g, g, g, f], "Rgba::<{}>::gray({:?})", ty, g);
    check_eq!(cx, Rgba::<T>::grey(g).rd(), [g, g, g, f], "Rgba::<{}>::grey({:?})", ty, g);
    Ok(())
}

/// Constructors and conversions between Rgb and Rgba, on any component type.
pub fn constructors<T: ColorComponent + Copy + PartialEq + Debug>(cx: &mut Cx, ty: &str, z: T, f: T, c: [T; 5]) -> CaseResult {
    let [r, g, b, a, o] = c;
    let rgb = Rgb::<T>::mk([r, g, b]);
    let rgba = Rgba::<T>::mk([r, g, b, a]);
    check_eq!(cx, Rgba::<T>::new_opaque(r, g, b).rd(), [r, g, b, f], "Rgba::<{}>::new_opaque", ty);
    check_eq!(cx, Rgba::<T>::new_transparent(r, g, b).rd(), [r, g, b, z], "Rgba::<{}>::new_transparent", ty);
    check_eq!(cx, Rgba::<T>::from_opaque(rgb).rd(), [r, g, b, f], "Rgba::<{}>::from_opaque(Rgb)", ty);
    check_eq!(cx, Rgba::<T>::from_transparent(rgb).rd(), [r, g, b, z], "Rgba::<{}>::from_transparent(Rgb)", ty);
    check_eq!(cx, Rgba::<T>::from_translucent(rgb, o).rd(), [r, g, b, o], "Rgba::<{}>::from_translucent(Rgb, o)", ty);
    check_eq!(cx, Rgba::<T>::from_opaque(Vec3::mk([r, g, b])).rd(), [r, g, b, f], "Rgba::<{}>::from_opaque(Vec3)", ty);
    check_eq!(cx, Rgba::<T>::from_transparent(rgba).rd(), [r, g, b, z], "Rgba::<{}>::from_transparent(Rgba) (alpha replaced)", ty);
    check_eq!(cx, Rgba::<T>::from_opaque(rgba).rd(), [r, g, b, f], "Rgba::<{}>::from_opaque(Rgba) (alpha replaced)", ty);
    check_eq!(cx, Rgba::<T>::from_translucent(rgba, o).rd(), [r, g, b, o], "Rgba::<{}>::from_translucent(Rgba, o) (alpha replaced)", ty);
    check_eq!(cx, Rgba::<T>::from(rgb).rd(), [r, g, b, f], "Rgba::<{}>::from(Rgb)", ty);
    check_eq!(cx, Rgba::<T>::from((rgb, o)).rd(), [r, g, b, o], "Rgba::<{}>::from((Rgb, o))", ty);
    check_eq!(cx, Rgb::<T>::from(rgba).rd(), [r, g, b], "Rgb::<{}>::from(Rgba)", ty);
    check_eq!(cx, rgba.rgb().rd(), [r, g, b], "Rgba::<{}>::rgb()", ty);
    check_eq!(cx, rgba.shuffled_argb().rd(), [a, r, g, b], "Rgba::<{}>::shuffled_argb()", ty);
    check_eq!(cx, rgba.shuffled_bgra().rd(), [b, g, r, a], "Rgba::<{}>::shuffled_bgra()", ty);
    check_eq!(cx, rgb.shuffled_bgr().rd(), [b, g, r], "Rgb::<{}>::shuffled_bgr()", ty);
    Ok(())
}

fn pairwise_distinct<T: PartialEq>(xs: &[T]) -> bool {
    (0..xs.len()).all(|i| !xs[..i].contains(&xs[i]))
}

/// Generated component values of one concrete component type.
pub fn colour_values<T: Comp>(t: &mut Tape, cx: &mut Cx) -> CaseResult {
    let c = [T::gen(t), T::gen(t), T::gen(t), T::gen(t), T::gen(t)];
    let [r, g, b, a, _o] = c;
    let (z, f) = (T::zero_want(), T::full_want());
    cx.set_nontrivial(pairwise_distinct(&[r, g, b, a]));
    sample!(cx, "{} r={:?} g={:?} b={:?} a={:?} o={:?}", T::NAME, r, g, b, a, c[4]);
    named_colours::<T>(cx, T::NAME, z, f, g)?;
    constructors::<T>(cx, T::NAME, z, f, c)?;

    // inverted_rgb = full - c on r, g, b; alpha kept; involution
    let inv = [T::inv_want(r), T::inv_want(g), T::inv_want(b)];
    let rgb = Rgb::<T>::mk([r, g, b]);
    let rgba = Rgba::<T>::mk([r, g, b, a]);
    if let [Inv::Exact(ir), Inv::Exact(ig), Inv::Exact(ib)] = inv {
        cx.label("inverted:exact");
        let i3 = rgb.inverted_rgb();
        let i4 = rgba.inverted_rgb();
        check_eq!(cx, i3.rd(), [ir, ig, ib], "Rgb::<{}>({:?},{:?},{:?}).inverted_rgb()", T::NAME, r, g, b);
        check_eq!(cx, i4.rd(), [ir, ig, ib, a], "Rgba::<{}>({:?},{:?},{:?},{:?}).inverted_rgb() (alpha kept)", T::NAME, r, g, b, a);
        // involution (the components of a legitimate colour lie in [zero, full], where it can always be evaluated)
        if let [Inv::Exact(_), Inv::Exact(_), Inv::Exact(_)] = [T::inv_want(ir), T::inv_want(ig), T::inv_want(ib)] {
            let j3 = i3.inverted_rgb().rd();
            let j4 = i4.inverted_rgb().rd();
            if T::IS_FLOAT {
                let tol = |x: T| 4.0 * eps_of::<T>() * x.to_f64().abs().max(1.0);
                for (k, x) in [r, g, b].iter().enumerate() {
                    check!(cx, (j3[k].to_f64() - x.to_f64()).abs() <= tol(*x), "Rgb::<{}> inverted twice, lane {}: got {:?}, want {:?}", T::NAME, k, j3[k], x);
                    check!(cx, (j4[k].to_f64() - x.to_f64()).abs() <= tol(*x), "Rgba::<{}> inverted twice, lane {}: got {:?}, want {:?}", T::NAME, k, j4[k], x);
                }
                check_eq!(cx, j4[3], a, "Rgba::<{}> inverted twice: alpha", T::NAME);
                // dyadic components in [0,1] are restored exactly
                let dyadic = |x: T| { let v = x.to_f64(); v >= 0.0 && v <= 1.0 && (v * 512.0).fract() == 0.0 };
                if dyadic(r) && dyadic(g) && dyadic(b) {
                    cx.label("involution:exact-dyadic-float");
                    check_eq!(cx, j3, [r, g, b], "Rgb::<{}> inverted twice (dyadic)", T::NAME);
                    check_eq!(cx, j4, [r, g, b, a], "Rgba::<{}> inverted twice (dyadic)", T::NAME);
                }
            } else {
                check_eq!(cx, j3, [r, g, b], "Rgb::<{}> inverted twice", T::NAME);
                check_eq!(cx, j4, [r, g, b, a], "Rgba::<{}> inverted twice", T::NAME);
            }
        }
    } else {
        // negative component of a signed checked integer type: full - c is not representable
        cx.label("inverted:signed-overflow(negative component)");
        // a negative component is outside [zero, full]: full - c is not representable, so the result is not
        // specified (panic, wrap or saturate are all acceptable); only "alpha untouched" is asserted
        let _ = &inv;
        let _ = vkit::catch(|| rgb.inverted_rgb());
        if let Ok(v) = vkit::catch(|| rgba.inverted_rgb()) {
            check_eq!(cx, v.a, a, "Rgba::<{}>::inverted_rgb alpha", T::NAME);
        }
    }

    // average_rgb = (r+g+b)/3, alpha ignored
    if let Some(AvgGot { rgb: g3, rgba: g4, want }) = T::avg(r, g, b, a) {
        for (which, got) in [("Rgb", g3), ("Rgba", g4)] {
            match (&want, got) {
                (AvgWant::Exact(w), Ok(v)) => {
                    cx.label("average:exact");
                    check_eq!(cx, v, *w, "{}::<{}>({:?},{:?},{:?}[,{:?}]).average_rgb()", which, T::NAME, r, g, b, a);
                }
                (AvgWant::Exact(w), Err(msg)) => fail!("{}::<{}>({:?},{:?},{:?}).average_rgb() panicked ({}) although every partial sum fits; want {:?}", which, T::NAME, r, g, b, msg, w),
                (AvgWant::Overflow(_, total_fits, _), Err(msg)) => {
                    cx.label(if *total_fits { "average:partial-sum-overflow-panics(documented)" } else { "average:sum-overflow-panics(documented)" });
                    check!(cx, msg.contains("overflow"), "{}::<{}>::average_rgb panicked with {:?}", which, T::NAME, msg);
                }
                (AvgWant::Overflow(w, _, exact), Ok(v)) => {
                    // either the wrapped value of an unchecked build, or the exact average of an overflow-free implementation
                    cx.label("average:sum-overflow-no-panic");
                    check!(cx, v == *w || v == *exact, "{}::<{}>({:?},{:?},{:?}).average_rgb() = {:?}: neither the exact average {:?} nor the wrapped value {:?}", which, T::NAME, r, g, b, v, exact, w);
                }
                (AvgWant::Approx(w, tol), Ok(v)) => {
                    cx.label("average:float");
                    let d = (v.to_f64() - w).abs();
                    cx.note_err(d / tol);
                    check!(cx, d <= *tol, "{}::<{}>({:?},{:?},{:?}).average_rgb(): got {:?}, want {:?} (tol {:e})", which, T::NAME, r, g, b, v, w, tol);
                }
                (AvgWant::Approx(..), Err(msg)) => fail!("{}::<{}>::average_rgb panicked: {}", which, T::NAME, msg),
            }
        }
    }
    Ok(())
}

/// Symbolic components: constructors, named colours, inverted_rgb and average_rgb as terms.
pub const N_SYM: u64 = 8;
pub fn colour_symbolic(i: u64, cx: &mut Cx) -> CaseResult {
    let at = atoms(i);
    let c = [at[0], at[1], at[2], at[3], at[4]];
    let [r, g, b, a, _] = c;
    let (z, f) = (Cs::zero(), Cs::full());
    cx.set_nontrivial(distinct(&c));
    sample!(cx, "Cs r={:?} g={:?} b={:?} a={:?} o={:?}", r, g, b, a, c[4]);
    named_colours::<Cs>(cx, "Cs", z, f, g)?;
    constructors::<Cs>(cx, "Cs", z, f, c)?;
    check_eq!(cx, Rgb::mk([r, g, b]).inverted_rgb().rd(), [f - r, f - g, f - b], "Rgb::<Cs>::inverted_rgb()");
    check_eq!(cx, Rgba::mk([r, g, b, a]).inverted_rgb().rd(), [f - r, f - g, f - b, a], "Rgba::<Cs>::inverted_rgb() (alpha untouched)");
    // the average is a sum of r, g, b (each once, in some order / association) divided by 3
    let three = Cs::from(3u8);
    let sums = [
        (r + g) + b, r + (g + b), (r + b) + g, r + (b + g), (g + r) + b, g + (r + b),
        (g + b) + r, g + (b + r), (b + r) + g, b + (r + g), (b + g) + r, b + (g + r),
    ];
    let a3 = Rgb::mk([r, g, b]).average_rgb();
    let a4 = Rgba::mk([r, g, b, a]).average_rgb();
    check!(cx, sums.iter().any(|s| *s / three == a3), "Rgb::<Cs>::average_rgb() = {:?} is not (r+g+b)/3", a3);
    check!(cx, sums.iter().any(|s| *s / three == a4), "Rgba::<Cs>::average_rgb() = {:?} is not (r+g+b)/3", a4);
    Ok(())
}

/// `average_rgb` on u8: index = r | g << 8 | b << 16 (the whole space in the thorough tier).
pub fn average_u8(i: u64, cx: &mut Cx) -> CaseResult {
    let (r, g, b) = ((i & 255) as u8, ((i >> 8) & 255) as u8, ((i >> 16) & 255) as u8);
    let a = (r ^ 0x5a).wrapping_add(b);
    cx.set_nontrivial(pairwise_distinct(&[r, g, b]));
    sample!(cx, "u8 r={} g={} b={} a={}", r, g, b, a);
    let AvgGot { rgb, rgba, want } = <u8 as Comp>::avg(r, g, b, a).unwrap();
    for (which, got) in [("Rgb", rgb), ("Rgba", rgba)] {
        match (&want, got) {
            (AvgWant::Exact(w), Ok(v)) => {
                cx.label("average:exact");
                check_eq!(cx, v, *w, "{}::<u8>({},{},{}).average_rgb()", which, r, g, b);
            }
            (AvgWant::Exact(w), Err(msg)) => fail!("{}::<u8>({},{},{}).average_rgb() panicked ({}) although r+g+b <= 255; want {}", which, r, g, b, msg, w),
            (AvgWant::Overflow(..), Err(msg)) => {
                cx.label("average:sum-overflow-panics(documented)");
                check!(cx, msg.contains("overflow"), "{}::<u8>::average_rgb panicked with {:?}", which, msg);
            }
            (AvgWant::Overflow(w, _, exact), Ok(v)) => {
                cx.label("average:sum-overflow-no-panic");
                check!(cx, v == *w || v == *exact, "{}::<u8>({},{},{}).average_rgb() = {}: neither the exact average {} nor the wrapped value {}", which, r, g, b, v, exact, w);
            }
            (AvgWant::Approx(..), _) => unreachable!(),
        }
    }
    Ok(())
}
