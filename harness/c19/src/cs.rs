//! Local helpers of C19: an opaque *colour-capable* symbolic element type and field-level
//! construction / reading of the nine struct-like vector types (the ground truth of every check).

use num_traits::{One, Zero};
use std::fmt;
use std::ops::{Add, Div, Mul, Sub};
use vek::ops::ColorComponent;
use vek::vec::repr_c::{Extent2, Extent3, Rgb, Rgba, Uv, Uvw, Vec2, Vec3, Vec4};
use vkit::Sym;

/// Opaque term (a `vkit::Sym`) that additionally implements vek's `ColorComponent`, so that the colour
/// constructors can be decided by parametricity: `zero()`, `one()` and `full()` are three distinct named
/// terms, different from every atom; every operator builds a new term.
#[derive(Copy, Clone, PartialEq, Eq, Hash, Default)]
pub struct Cs(pub Sym);

impl fmt::Debug for Cs {
    fn fmt(&self, f: &mut fmt::Formatter) -> fmt::Result {
        write!(f, "{:?}", self.0)
    }
}
impl Add for Cs {
    type Output = Cs;
    fn add(self, o: Cs) -> Cs {
        Cs(self.0 + o.0)
    }
}
impl Sub for Cs {
    type Output = Cs;
    fn sub(self, o: Cs) -> Cs {
        Cs(self.0 - o.0)
    }
}
impl Mul for Cs {
    type Output = Cs;
    fn mul(self, o: Cs) -> Cs {
        Cs(self.0 * o.0)
    }
}
impl Div for Cs {
    type Output = Cs;
    fn div(self, o: Cs) -> Cs {
        Cs(self.0 / o.0)
    }
}
impl Zero for Cs {
    fn zero() -> Cs {
        Cs(Sym::zero())
    }
    fn is_zero(&self) -> bool {
        self.0.is_zero()
    }
}
impl One for Cs {
    fn one() -> Cs {
        Cs(Sym::one())
    }
}
impl From<u8> for Cs {
    fn from(x: u8) -> Cs {
        Cs(Sym::from(x))
    }
}
impl ColorComponent for Cs {
    fn full() -> Cs {
        Cs(Sym::named("full"))
    }
}

pub fn atom(k: u32) -> Cs {
    Cs(Sym::atom(k))
}

/// Sixteen pairwise distinct atoms in an arrangement chosen by `variant`.
pub fn atoms(variant: u64) -> [Cs; 16] {
    let mut a = [atom(0); 16];
    for i in 0..16u64 {
        // 5 is coprime to 16: a permutation of 0..16, shifted per variant, in a per-variant id block
        a[i as usize] = atom((variant * 100 + (i * 5 + variant * 3) % 16) as u32);
    }
    a
}

/// Are all the given terms pairwise distinct, and distinct from zero / one / full?
pub fn distinct(xs: &[Cs]) -> bool {
    let special = [Cs::zero(), Cs::one(), Cs::full()];
    for (i, x) in xs.iter().enumerate() {
        if special.contains(x) || xs[..i].contains(x) {
            return false;
        }
    }
    true
}

/// Build / read a vector through its public named fields only.
pub trait Flds<T, const N: usize>: Sized {
    fn mk(a: [T; N]) -> Self;
    fn rd(self) -> [T; N];
}
macro_rules! flds {
    ($V:ident, $N:expr, $($f:ident $i:expr),+) => {
        impl<T: Copy> Flds<T, $N> for $V<T> {
            fn mk(a: [T; $N]) -> Self {
                $V { $($f: a[$i]),+ }
            }
            fn rd(self) -> [T; $N] {
                [$(self.$f),+]
            }
        }
    };
}
flds!(Vec2, 2, x 0, y 1);
flds!(Vec3, 3, x 0, y 1, z 2);
flds!(Vec4, 4, x 0, y 1, z 2, w 3);
flds!(Extent2, 2, w 0, h 1);
flds!(Extent3, 3, w 0, h 1, d 2);
flds!(Rgb, 3, r 0, g 1, b 2);
flds!(Rgba, 4, r 0, g 1, b 2, a 3);
flds!(Uv, 2, u 0, v 1);
flds!(Uvw, 3, u 0, v 1, w 2);
