//! C19 — vector kind/size conversions, swizzles, shuffles, colour helpers keep elements.
//!
//! Ground truth everywhere: inputs are built and outputs are read through the public *named fields* of the
//! vector types (and the `rows` / `cols` fields of matrices), never through the APIs under test.
//! Element-moving APIs are decided on pairwise distinct opaque terms (`cs::Cs`, a `vkit::Sym` that also
//! implements `ColorComponent`), i.e. for every input by parametricity; value-dependent colour helpers are
//! decided on generated values of every `ColorComponent` type against oracles computed in `i128` / `f64`.

pub mod colour;
pub mod cs;
pub mod mats;
pub mod shuffle;
pub mod own;
pub mod tables;

use colour::Comp;
use std::num::Wrapping;
use vkit::*;

/// Named colours / `full()` for each of the 18 std component types and the symbolic one: index = type.
const N_NAMED: u64 = 19;
fn named_table(i: u64, cx: &mut Cx) -> CaseResult {
    macro_rules! ty {
        ($T:ty, $g:expr) => {{
            let (z, f) = (<$T as Comp>::zero_want(), <$T as Comp>::full_want());
            sample!(cx, "{}: zero={:?} full={:?} gray level={:?}", <$T as Comp>::NAME, z, f, $g);
            cx.nontrivial();
            colour::named_colours::<$T>(cx, <$T as Comp>::NAME, z, f, $g)
        }};
    }
    match i {
        0 => ty!(f32, 0.3f32),
        1 => ty!(f64, 0.3f64),
        2 => ty!(u8, 77u8),
        3 => ty!(u16, 777u16),
        4 => ty!(u32, 77_777u32),
        5 => ty!(u64, 7_777_777_777u64),
        6 => ty!(i8, 77i8),
        7 => ty!(i16, 777i16),
        8 => ty!(i32, 77_777i32),
        9 => ty!(i64, 7_777_777_777i64),
        10 => ty!(Wrapping<u8>, Wrapping(77u8)),
        11 => ty!(Wrapping<u16>, Wrapping(777u16)),
        12 => ty!(Wrapping<u32>, Wrapping(77_777u32)),
        13 => ty!(Wrapping<u64>, Wrapping(7_777_777_777u64)),
        14 => ty!(Wrapping<i8>, Wrapping(77i8)),
        15 => ty!(Wrapping<i16>, Wrapping(777i16)),
        16 => ty!(Wrapping<i32>, Wrapping(77_777i32)),
        17 => ty!(Wrapping<i64>, Wrapping(7_777_777_777i64)),
        18 => colour::colour_symbolic(0, cx),
        _ => fail!("named_table: index {} out of range", i),
    }
}

pub fn property() -> Property {
    let mut checks = Vec::new();
    macro_rules! index {
        ($name:expr, $about:expr, $total:expr, $f:expr) => {
            checks.push(Check { name: $name, about: $about, kind: Kind::Index { total: $total, quick: $total, thorough: $total, f: $f } });
        };
    }
    macro_rules! tape {
        ($name:expr, $about:expr, $len:expr, $q:expr, $th:expr, $f:expr) => {
            checks.push(Check { name: $name, about: $about, kind: Kind::Tape { len: $len, quick: $q, thorough: $th, f: $f } });
        };
    }
    use tables::VARIANTS;
    index!("conv-table", "all 24 From impls between vector types (kind change keeps order, shrinking drops the tail, growing appends T::zero(), (smaller, scalar) appends the scalar, Rgba::from(Rgb) appends full()), From and Into, 8 atom arrangements each",
        tables::N_CONV * VARIANTS, tables::conv_table);
    index!("conv-ownership", "shrinking and kind-changing conversions (From / Into / xyz / xy) on Rc elements: the kept elements are the leading source elements moved in order, every discarded trailing element is dropped exactly once (strong count back to 1 while the result is alive), nothing is leaked or duplicated", own::TOTAL, own::conv_ownership);
    index!("swizzle-table", "yx, zyx, wxyz, wzyx, zyxw, xy, xyz, rgb, all with_x/y/z/w setters (incl. the growing Vec2::with_z/with_w, Vec3::with_w), shuffled_argb/bgra/bgr: exactly the named permutation / replacement",
        tables::N_SWZ * VARIANTS, tables::swizzle_table);
    index!("homogeneous-table", "new_point/new_direction/from_point/from_direction (Vec4) and the _2d forms (Vec3) from every argument kind: last coordinate 1 for points, 0 for directions, Vec2 arguments get z = 0, a present last coordinate is replaced",
        tables::N_HOM * VARIANTS, tables::homogeneous_table);
    index!("unit-table", "unit_x/y/z/w, unit_*_point and the deprecated direction names (left/right/up/down/forward_lh/forward_rh/back_lh/back_rh and *_point forms) against their documented components, for i32 i64 f32 f64 Rat (u8 and symbolic for the non-negated ones)",
        tables::N_UNIT_TOTAL, tables::unit_table);
    index!("shuffle-masks", "all 256 masks x {Vec4, Rgba}: shuffled / shuffle_lo_hi with ShuffleMask4::new, tuple, array, usize; result = (lo[a], lo[b], hi[c], hi[d]); to_indices(new(a,b,c,d)) = (a,b,c,d); each mask also through out-of-range aliases (+4, +8, +12, +usize::MAX-3)",
        shuffle::N_MASKS, shuffle::shuffle_masks);
    index!("shuffle-helpers", "shuffled_0101/2323/0022/1133, interleave_0011/2233, shuffle_lo_hi_0101, shuffle_hi_lo_2323 on Vec4 and Rgba against the lane diagrams of their doc comments",
        shuffle::N_HELPERS * VARIANTS, shuffle::shuffle_helpers);
    tape!("shuffle-indices", "arbitrary usize index tuples (>= 4, powers of two +-1, usize::MAX): indices are taken modulo 4 by ShuffleMask4::{new, from} and by the shuffles of Vec4 and Rgba",
        48, 20_000, 1_000_000, shuffle::shuffle_indices);
    index!("mat-embed-sym", "Mat3::from(Mat2), Mat4::from(Mat2), Mat4::from(Mat3) = block in the identity; Mat2::from(Mat3), Mat2::from(Mat4), Mat3::from(Mat4) = upper-left block; both layouts, symbolic entries",
        mats::N_MAT_SYM * 4, mats::mat_embed_sym);
    let me = "embedding commutes with multiplication: MatM::from(m) * grow(v) = grow(m * v) and grow(v) * MatM::from(m) = grow(v * m) for points (1) and directions (0), 2->3, 2->4, 3->4, both layouts; shrinking = upper-left block; round trips; from(A)*from(B) = from(A*B)";
    tape!("mat-embed-rat", me, 160, 6_000, 300_000, mats::mat_embed_num::<Rat>);
    tape!("mat-embed-f64", me, 256, 4_000, 200_000, mats::mat_embed_num::<f64>);
    index!("colour-named-table", "full() = MAX (integers, Wrapping) / 1 (floats); black white red green blue cyan magenta yellow gray grey on Rgb and Rgba (alpha = full) for each of the 18 ColorComponent types of vek and a symbolic one",
        N_NAMED, named_table);
    index!("colour-symbolic", "new_opaque/new_transparent/from_opaque/from_transparent/from_translucent, Rgba::from(Rgb), Rgb::from(Rgba), shuffled_*, inverted_rgb = (full - c) per colour lane with alpha untouched, average_rgb = (r+g+b)/3 without alpha, as terms",
        colour::N_SYM, colour::colour_symbolic);
    let cv = "generated components: named colours, constructors, Rgb<->Rgba conversions, reorderings, inverted_rgb = full - c per colour lane with alpha kept and inverting twice restores the colour, average_rgb = (r+g+b)/3 ignoring alpha (integer: truncating, oracle in i128; overflow of the documented kind must surface as an overflow panic)";
    macro_rules! colour {
        ($name:expr, $T:ty) => {
            tape!($name, cv, 64, 10_000, 500_000, colour::colour_values::<$T>);
        };
    }
    colour!("colour-f32", f32);
    colour!("colour-f64", f64);
    colour!("colour-u8", u8);
    colour!("colour-u16", u16);
    colour!("colour-u32", u32);
    colour!("colour-u64", u64);
    colour!("colour-i8", i8);
    colour!("colour-i16", i16);
    colour!("colour-i32", i32);
    colour!("colour-i64", i64);
    colour!("colour-wrapping-u8", Wrapping<u8>);
    colour!("colour-wrapping-u16", Wrapping<u16>);
    colour!("colour-wrapping-u32", Wrapping<u32>);
    colour!("colour-wrapping-u64", Wrapping<u64>);
    colour!("colour-wrapping-i8", Wrapping<i8>);
    colour!("colour-wrapping-i16", Wrapping<i16>);
    colour!("colour-wrapping-i32", Wrapping<i32>);
    colour!("colour-wrapping-i64", Wrapping<i64>);
    checks.push(Check {
        name: "average-u8-all",
        about: "Rgb/Rgba::<u8>::average_rgb over the 2^24 (r,g,b) triples (sampled in the quick tier, complete in the thorough tier): (r+g+b)/3 truncated when r+g+b <= 255, overflow panic (documented) otherwise",
        kind: Kind::Index { total: 1 << 24, quick: 40_000, thorough: 1 << 24, f: colour::average_u8 },
    });
    Property {
        id: "C19",
        rule: "table checks enumerate every (API, arrangement) cell; elements are pairwise distinct opaque atoms, also distinct from zero/one/full (a case is non-trivial iff that holds); shuffle-indices: non-trivial iff some index >= 4; colour-<type>: components from a stratified generator (0, MAX, MIN, MAX/2, MAX/3, small, random / dyadic and random floats), non-trivial iff r,g,b,a pairwise distinct; mat-embed: non-trivial iff matrices have >= 3 distinct non-zero entries, are not symmetric, v has no zero lane and m*v, v*m, v differ; unit-table: non-trivial iff the expected vector has two different components",
        assumptions: &[
            "rustc and the proptest runner/shrinker are trusted",
            "vectors are built and read through their public named fields, matrices through rows/cols (vkit::vk::MatN); that is the ground truth",
            "parametricity: an element-moving function generic in T that is correct on pairwise distinct opaque terms is correct on all values",
            "the 24 From impls, 24 swizzles/setters and 40 unit/direction names were enumerated by reading src/vec.rs of vek 0.17.1; an impl added later is not covered until listed",
            "vek's matrix*vector product is the one verified by C01 (also cross-checked here against vkit::refmath)",
            "integer average_rgb / signed inverted_rgb overflow is a documented caveat of vek ('integer overflows cause panics in debug mode'): the harness (overflow-checks on) requires the overflow panic there and the exact value everywhere else",
        ],
        checks,
        max_discard_frac: 0.2,
    }
}
