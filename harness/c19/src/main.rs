fn main() {
    vkit::driver::main(c19::property())
}
