//! Matrix size conversions: structure (symbolic entries) and the commutation law with vector growth (numeric).

use crate::cs::*;
use num_traits::{One, Zero};
use vek::mat::repr_c::column_major as cm;
use vek::mat::repr_c::row_major as rm;
use vek::vec::repr_c::{Vec2, Vec3, Vec4};
use vkit::refmath as rf;
use vkit::vk::{self, MatN};
use vkit::*;

/// Embed an n×n array into the upper-left block of the m×m identity (m > n) / take the upper-left block (m < n).
fn resize<T: Copy + Zero + One, const N: usize, const M: usize>(a: &[[T; N]; N]) -> [[T; M]; M] {
    let mut r = [[T::zero(); M]; M];
    for i in 0..M {
        for j in 0..M {
            r[i][j] = if i < N && j < N { a[i][j] } else if i == j { T::one() } else { T::zero() };
        }
    }
    r
}

fn sym_mat<const N: usize>(at: &[Cs; 16]) -> [[Cs; N]; N] {
    let mut m = [[at[0]; N]; N];
    for i in 0..N {
        for j in 0..N {
            m[i][j] = at[i * N + j];
        }
    }
    m
}

/// index = variant * 12 + layout * 6 + conversion
pub const N_MAT_SYM: u64 = 12;
pub fn mat_embed_sym(i: u64, cx: &mut Cx) -> CaseResult {
    let (p, var) = (i % N_MAT_SYM, i / N_MAT_SYM);
    let at = atoms(var);
    cx.set_nontrivial(distinct(&at));
    let (a2, a3, a4) = (sym_mat::<2>(&at), sym_mat::<3>(&at), sym_mat::<4>(&at));
    macro_rules! layout {
        ($l:ident, $name:expr, $k:expr) => {{
            sample!(cx, "{} conversion #{} A2={:?} A3={:?} A4={:?}", $name, $k, a2, a3, a4);
            match $k {
                0 => check_eq!(cx, $l::Mat3::<Cs>::from($l::Mat2::from_arr(&a2)).to_arr(), resize::<Cs, 2, 3>(&a2), "{} Mat3::from(Mat2)", $name),
                1 => check_eq!(cx, $l::Mat4::<Cs>::from($l::Mat2::from_arr(&a2)).to_arr(), resize::<Cs, 2, 4>(&a2), "{} Mat4::from(Mat2)", $name),
                2 => check_eq!(cx, $l::Mat4::<Cs>::from($l::Mat3::from_arr(&a3)).to_arr(), resize::<Cs, 3, 4>(&a3), "{} Mat4::from(Mat3)", $name),
                3 => check_eq!(cx, $l::Mat2::<Cs>::from($l::Mat3::from_arr(&a3)).to_arr(), resize::<Cs, 3, 2>(&a3), "{} Mat2::from(Mat3)", $name),
                4 => check_eq!(cx, $l::Mat2::<Cs>::from($l::Mat4::from_arr(&a4)).to_arr(), resize::<Cs, 4, 2>(&a4), "{} Mat2::from(Mat4)", $name),
                _ => check_eq!(cx, $l::Mat3::<Cs>::from($l::Mat4::from_arr(&a4)).to_arr(), resize::<Cs, 4, 3>(&a4), "{} Mat3::from(Mat4)", $name),
            }
        }};
    }
    if p < 6 {
        layout!(rm, "row-major", p)
    } else {
        layout!(cm, "column-major", p - 6)
    }
    Ok(())
}

fn distinct_nonzero<S: Dom, const N: usize>(a: &[[S; N]; N]) -> usize {
    let mut v: Vec<S> = Vec::new();
    for r in a {
        for x in r {
            if !x.is_zero() && !v.contains(x) {
                v.push(*x);
            }
        }
    }
    v.len()
}

/// Embedding commutes with multiplication: `MatM::from(m) * grow(v) = grow(m * v)` (and the row-vector form)
/// for points (appended 1) and directions (appended 0); shrinking takes the upper-left block; round trips.
pub fn mat_embed_num<S: Dom>(t: &mut Tape, cx: &mut Cx) -> CaseResult {
    let a2: [[S; 2]; 2] = vk::gen_mat(t, 9);
    let b2: [[S; 2]; 2] = vk::gen_mat(t, 9);
    let a3: [[S; 3]; 3] = vk::gen_mat(t, 9);
    let a4: [[S; 4]; 4] = vk::gen_mat(t, 9);
    let v2: [S; 2] = vk::gen_vec(t, 9);
    let v3: [S; 3] = vk::gen_vec(t, 9);
    let (o, z) = (S::one(), S::zero());
    let av2 = rf::matvec(&a2, &v2);
    let va2 = rf::vecmat(&v2, &a2);
    let av3 = rf::matvec(&a3, &v3);
    let va3 = rf::vecmat(&v3, &a3);
    cx.set_nontrivial(
        distinct_nonzero(&a2) >= 3 && distinct_nonzero(&a3) >= 3 && distinct_nonzero(&a4) >= 3 && a2 != rf::transpose(&a2) && a3 != rf::transpose(&a3)
            && av2 != v2 && av3 != v3 && av2 != va2 && av3 != va3 && !v2.contains(&z) && !v3.contains(&z),
    );
    sample!(cx, "{} A2={:?} B2={:?} A3={:?} A4={:?} v2={:?} v3={:?}", S::NAME, a2, b2, a3, a4, v2, v3);
    let sc = 4.0 * vk::mat_max(&a2).max(vk::mat_max(&a3)).max(1.0) * vk::vec_max(&v2).max(vk::vec_max(&v3)).max(vk::mat_max(&b2)).max(1.0);
    let (p2, d2) = (Vec2 { x: v2[0], y: v2[1] }, Vec3 { x: v3[0], y: v3[1], z: v3[2] });
    macro_rules! layout {
        ($l:ident, $name:expr) => {{
            let (m2, n2, m3, m4) = ($l::Mat2::<S>::from_arr(&a2), $l::Mat2::<S>::from_arr(&b2), $l::Mat3::<S>::from_arr(&a3), $l::Mat4::<S>::from_arr(&a4));
            // ---- growing: structure
            let m23 = $l::Mat3::<S>::from(m2);
            let m24 = $l::Mat4::<S>::from(m2);
            let m34 = $l::Mat4::<S>::from(m3);
            check_eq!(cx, m23.to_arr(), resize::<S, 2, 3>(&a2), "{} Mat3::from(Mat2)", $name);
            check_eq!(cx, m24.to_arr(), resize::<S, 2, 4>(&a2), "{} Mat4::from(Mat2)", $name);
            check_eq!(cx, m34.to_arr(), resize::<S, 3, 4>(&a3), "{} Mat4::from(Mat3)", $name);
            // ---- shrinking: upper-left block, and round trips
            check_eq!(cx, $l::Mat2::<S>::from(m3).to_arr(), resize::<S, 3, 2>(&a3), "{} Mat2::from(Mat3)", $name);
            check_eq!(cx, $l::Mat2::<S>::from(m4).to_arr(), resize::<S, 4, 2>(&a4), "{} Mat2::from(Mat4)", $name);
            check_eq!(cx, $l::Mat3::<S>::from(m4).to_arr(), resize::<S, 4, 3>(&a4), "{} Mat3::from(Mat4)", $name);
            check_eq!(cx, $l::Mat2::<S>::from(m23).to_arr(), a2, "{} Mat2::from(Mat3::from(m))", $name);
            check_eq!(cx, $l::Mat2::<S>::from(m24).to_arr(), a2, "{} Mat2::from(Mat4::from(m))", $name);
            check_eq!(cx, $l::Mat3::<S>::from(m34).to_arr(), a3, "{} Mat3::from(Mat4::from(m))", $name);
            check_eq!(cx, $l::Mat3::<S>::from(m24).to_arr(), m23.to_arr(), "{} Mat3::from(Mat4::from(m2)) == Mat3::from(m2)", $name);
            check_eq!(cx, $l::Mat4::<S>::from(m23).to_arr(), m24.to_arr(), "{} Mat4::from(Mat3::from(m2)) == Mat4::from(m2)", $name);
            // ---- commutation with vector growth, 2 -> 3 (2D homogeneous: Vec3, last coordinate 1 / 0)
            let (pt, dir) = (Vec3::<S>::from_point_2d(p2), Vec3::<S>::from_direction_2d(p2));
            check_eq!(cx, vk::a3(&pt), [v2[0], v2[1], o], "from_point_2d");
            check_eq!(cx, vk::a3(&dir), [v2[0], v2[1], z], "from_direction_2d");
            check_vec!(cx, S, vk::a3(&(m23 * pt)), [av2[0], av2[1], o], sc, 8, "{} Mat3::from(m2) * point2d = point2d(m2 * v)", $name);
            check_vec!(cx, S, vk::a3(&(m23 * dir)), [av2[0], av2[1], z], sc, 8, "{} Mat3::from(m2) * direction2d = direction2d(m2 * v)", $name);
            check_vec!(cx, S, vk::a3(&(pt * m23)), [va2[0], va2[1], o], sc, 8, "{} point2d * Mat3::from(m2) = point2d(v * m2)", $name);
            check_vec!(cx, S, vk::a3(&(dir * m23)), [va2[0], va2[1], z], sc, 8, "{} direction2d * Mat3::from(m2) = direction2d(v * m2)", $name);
            check_vec!(cx, S, vk::a3(&(m23 * pt)), vk::a3(&Vec3::<S>::from_point_2d(m2 * p2)), sc, 8, "{} Mat3::from(m2) * grow(v) = grow(m2 * v) [vek both sides, point]", $name);
            check_vec!(cx, S, vk::a3(&(m23 * dir)), vk::a3(&Vec3::<S>::from_direction_2d(m2 * p2)), sc, 8, "{} Mat3::from(m2) * grow(v) = grow(m2 * v) [vek both sides, direction]", $name);
            // ---- 2 -> 4 (Vec2 grows by z = 0, then w = 1 / 0)
            let (pt, dir) = (Vec4::<S>::from_point(p2), Vec4::<S>::from_direction(p2));
            check_eq!(cx, vk::a4(&pt), [v2[0], v2[1], z, o], "from_point(Vec2)");
            check_eq!(cx, vk::a4(&dir), [v2[0], v2[1], z, z], "from_direction(Vec2)");
            check_vec!(cx, S, vk::a4(&(m24 * pt)), [av2[0], av2[1], z, o], sc, 8, "{} Mat4::from(m2) * point = point(m2 * v)", $name);
            check_vec!(cx, S, vk::a4(&(m24 * dir)), [av2[0], av2[1], z, z], sc, 8, "{} Mat4::from(m2) * direction = direction(m2 * v)", $name);
            check_vec!(cx, S, vk::a4(&(pt * m24)), [va2[0], va2[1], z, o], sc, 8, "{} point * Mat4::from(m2) = point(v * m2)", $name);
            check_vec!(cx, S, vk::a4(&(dir * m24)), [va2[0], va2[1], z, z], sc, 8, "{} direction * Mat4::from(m2) = direction(v * m2)", $name);
            check_vec!(cx, S, vk::a4(&(m24 * pt)), vk::a4(&Vec4::<S>::from_point(m2 * p2)), sc, 8, "{} Mat4::from(m2) * grow(v) = grow(m2 * v) [vek both sides, point]", $name);
            check_vec!(cx, S, vk::a4(&(m24 * Vec4::<S>::from(p2))), vk::a4(&Vec4::<S>::from(m2 * p2)), sc, 8, "{} Mat4::from(m2) * Vec4::from(v) = Vec4::from(m2 * v)", $name);
            check_vec!(cx, S, vk::a3(&(m23 * Vec3::<S>::from(p2))), vk::a3(&Vec3::<S>::from(m2 * p2)), sc, 8, "{} Mat3::from(m2) * Vec3::from(v) = Vec3::from(m2 * v)", $name);
            // ---- 3 -> 4
            let (pt, dir) = (Vec4::<S>::from_point(d2), Vec4::<S>::from_direction(d2));
            check_eq!(cx, vk::a4(&pt), [v3[0], v3[1], v3[2], o], "from_point(Vec3)");
            check_eq!(cx, vk::a4(&dir), [v3[0], v3[1], v3[2], z], "from_direction(Vec3)");
            check_vec!(cx, S, vk::a4(&(m34 * pt)), [av3[0], av3[1], av3[2], o], sc, 8, "{} Mat4::from(m3) * point = point(m3 * v)", $name);
            check_vec!(cx, S, vk::a4(&(m34 * dir)), [av3[0], av3[1], av3[2], z], sc, 8, "{} Mat4::from(m3) * direction = direction(m3 * v)", $name);
            check_vec!(cx, S, vk::a4(&(pt * m34)), [va3[0], va3[1], va3[2], o], sc, 8, "{} point * Mat4::from(m3) = point(v * m3)", $name);
            check_vec!(cx, S, vk::a4(&(dir * m34)), [va3[0], va3[1], va3[2], z], sc, 8, "{} direction * Mat4::from(m3) = direction(v * m3)", $name);
            check_vec!(cx, S, vk::a4(&(m34 * pt)), vk::a4(&Vec4::<S>::from_point(m3 * d2)), sc, 8, "{} Mat4::from(m3) * grow(v) = grow(m3 * v) [vek both sides, point]", $name);
            check_vec!(cx, S, vk::a4(&(m34 * Vec4::<S>::from(d2))), vk::a4(&Vec4::<S>::from(m3 * d2)), sc, 8, "{} Mat4::from(m3) * Vec4::from(v) = Vec4::from(m3 * v)", $name);
            // ---- shrinking commutes back: (Mat4::from(m3) * (v,1)).xyz() = m3 * v
            check_vec!(cx, S, vk::a3(&Vec3::<S>::from(m34 * pt)), av3, sc, 8, "{} Vec3::from(Mat4::from(m3) * point) = m3 * v", $name);
            check_vec!(cx, S, vk::a2(&Vec2::<S>::from(m24 * Vec4::<S>::from_point(p2))), av2, sc, 8, "{} Vec2::from(Mat4::from(m2) * point) = m2 * v", $name);
            // ---- the embedding is multiplicative
            let ab = rf::matmul(&a2, &b2);
            check_mat!(cx, S, ($l::Mat3::<S>::from(m2) * $l::Mat3::<S>::from(n2)).to_arr(), resize::<S, 2, 3>(&ab), sc, 8, "{} Mat3::from(A) * Mat3::from(B) = Mat3::from(A*B)", $name);
            check_mat!(cx, S, ($l::Mat4::<S>::from(m2) * $l::Mat4::<S>::from(n2)).to_arr(), resize::<S, 2, 4>(&ab), sc, 8, "{} Mat4::from(A) * Mat4::from(B) = Mat4::from(A*B)", $name);
        }};
    }
    layout!(rm, "row-major");
    layout!(cm, "column-major");
    Ok(())
}
