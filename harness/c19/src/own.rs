//! Ownership side of the size / kind conversions: "shrinking DROPS trailing elements" - the elements that do not
//! make it into the result are dropped exactly once (not leaked, not duplicated), the kept ones are moved.
//! Elements are `Rc<u32>`: the strong count is the observer.

use std::rc::Rc;
use vek::vec::repr_c::{Extent2, Extent3, Rgb, Rgba, Vec2, Vec3, Vec4};
use vkit::*;

pub const TOTAL: u64 = 16;

fn handles(n: usize, base: u32) -> Vec<Rc<u32>> {
    (0..n).map(|i| Rc::new(base + i as u32)).collect()
}

pub fn conv_ownership(i: u64, cx: &mut Cx) -> CaseResult {
    let h = handles(4, 10 * i as u32);
    let c = |k: usize| h[k].clone();
    cx.nontrivial();
    // returns (name, kept elements read from the result in order, the result kept alive as a boxed Any-less drop guard)
    macro_rules! case {
        ($name:expr, $n_src:expr, $e:expr, $read:expr) => {{
            sample!(cx, "{} on Rc elements {:?}", $name, &h[..$n_src]);
            let res = $e;
            let kept: Vec<Rc<u32>> = $read(&res);
            // kept elements are the leading source elements, moved (same allocation), in order
            for (k, r) in kept.iter().enumerate() {
                check!(cx, Rc::ptr_eq(r, &h[k]), "{}: element {} of the result is not source element {}", $name, k, k);
            }
            drop(kept);
            for k in 0..$n_src {
                let want = if k < $read(&res).len() { 2 } else { 1 };
                check_eq!(cx, Rc::strong_count(&h[k]), want, "{}: strong count of source element {} while the result is alive (2 = moved into the result, 1 = dropped; 2 for a discarded element means it was leaked)", $name, k);
            }
            drop(res);
            for k in 0..$n_src {
                check_eq!(cx, Rc::strong_count(&h[k]), 1, "{}: strong count of source element {} after dropping the result", $name, k);
            }
        }};
    }
    let v4 = || Vec4 { x: c(0), y: c(1), z: c(2), w: c(3) };
    let v3 = || Vec3 { x: c(0), y: c(1), z: c(2) };
    let v2 = || Vec2 { x: c(0), y: c(1) };
    let r2 = |v: &Vec2<Rc<u32>>| vec![v.x.clone(), v.y.clone()];
    let r3 = |v: &Vec3<Rc<u32>>| vec![v.x.clone(), v.y.clone(), v.z.clone()];
    match i {
        0 => case!("Vec3::from(Vec4)", 4, Vec3::<Rc<u32>>::from(v4()), r3),
        1 => case!("Vec2::from(Vec4)", 4, Vec2::<Rc<u32>>::from(v4()), r2),
        2 => case!("Vec2::from(Vec3)", 3, Vec2::<Rc<u32>>::from(v3()), r2),
        3 => case!("Vec4::xyz", 4, v4().xyz(), r3),
        4 => case!("Vec4::xy", 4, v4().xy(), r2),
        5 => case!("Vec3::xy", 3, v3().xy(), r2),
        6 => case!("Into::<Vec3>::into(Vec4)", 4, { let r: Vec3<Rc<u32>> = v4().into(); r }, r3),
        7 => case!("Into::<Vec2>::into(Vec4)", 4, { let r: Vec2<Rc<u32>> = v4().into(); r }, r2),
        8 => case!("Vec3::from(Extent3)", 3, Vec3::<Rc<u32>>::from(Extent3 { w: c(0), h: c(1), d: c(2) }), r3),
        9 => case!("Vec2::from(Extent2)", 2, Vec2::<Rc<u32>>::from(Extent2 { w: c(0), h: c(1) }), r2),
        10 => case!("Extent3::from(Vec3)", 3, Extent3::<Rc<u32>>::from(v3()), |e: &Extent3<Rc<u32>>| vec![e.w.clone(), e.h.clone(), e.d.clone()]),
        11 => case!("Extent2::from(Vec2)", 2, Extent2::<Rc<u32>>::from(v2()), |e: &Extent2<Rc<u32>>| vec![e.w.clone(), e.h.clone()]),
        12 => case!("Vec3::from(Rgb)", 3, Vec3::<Rc<u32>>::from(Rgb { r: c(0), g: c(1), b: c(2) }), r3),
        13 => case!("Vec4::from(Rgba)", 4, Vec4::<Rc<u32>>::from(Rgba { r: c(0), g: c(1), b: c(2), a: c(3) }), |v: &Vec4<Rc<u32>>| vec![v.x.clone(), v.y.clone(), v.z.clone(), v.w.clone()]),
        14 => case!("Rgb::from(Vec3)", 3, Rgb::<Rc<u32>>::from(v3()), |v: &Rgb<Rc<u32>>| vec![v.r.clone(), v.g.clone(), v.b.clone()]),
        _ => case!("Rgba::from(Vec4)", 4, Rgba::<Rc<u32>>::from(v4()), |v: &Rgba<Rc<u32>>| vec![v.r.clone(), v.g.clone(), v.b.clone(), v.a.clone()]),
    }
    Ok(())
}
