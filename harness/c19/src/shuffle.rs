//! 4-lane shuffles on `Vec4` and `Rgba`: all 256 masks, arbitrary `usize` indices, the eight fixed helpers.

use crate::cs::*;
use vek::vec::repr_c::{Rgba, Vec4};
use vek::vec::ShuffleMask4;
use vkit::*;

/// Everything that can be said about one index tuple (a,b,c,d) (any `usize`s) on one vector type:
/// result = (lo[a%4], lo[b%4], hi[c%4], hi[d%4]) for every way of spelling the mask.
macro_rules! shuffle_fn {
    ($fname:ident, $V:ident) => {
        pub fn $fname(cx: &mut Cx, lo: [Cs; 4], hi: [Cs; 4], idx: [usize; 4]) -> CaseResult {
            const V: &str = stringify!($V);
            let [a, b, c, d] = idx;
            let r = [a % 4, b % 4, c % 4, d % 4];
            let want_lo_hi = [lo[r[0]], lo[r[1]], hi[r[2]], hi[r[3]]];
            let want_self = [lo[r[0]], lo[r[1]], lo[r[2]], lo[r[3]]];
            let want_hi_lo = [hi[r[0]], hi[r[1]], lo[r[2]], lo[r[3]]];
            let (vlo, vhi) = ($V::<Cs>::mk(lo), $V::<Cs>::mk(hi));
            // ShuffleMask4: construction and extraction
            let m = ShuffleMask4::new(a, b, c, d);
            check_eq!(cx, m.to_indices(), (r[0], r[1], r[2], r[3]), "ShuffleMask4::new{:?}.to_indices()", idx);
            check_eq!(cx, ShuffleMask4::from((a, b, c, d)).to_indices(), (r[0], r[1], r[2], r[3]), "ShuffleMask4::from(tuple {:?}).to_indices()", idx);
            check_eq!(cx, ShuffleMask4::from([a, b, c, d]).to_indices(), (r[0], r[1], r[2], r[3]), "ShuffleMask4::from(array {:?}).to_indices()", idx);
            check_eq!(cx, ShuffleMask4::from((a, b, c, d)), m, "ShuffleMask4::from(tuple) == new {:?}", idx);
            check_eq!(cx, ShuffleMask4::from([a, b, c, d]), m, "ShuffleMask4::from(array) == new {:?}", idx);
            check_eq!(cx, ShuffleMask4::new(r[0], r[1], r[2], r[3]), m, "ShuffleMask4::new reduced == new {:?}", idx);
            // shuffle_lo_hi / shuffled with every spelling of the mask
            check_eq!(cx, $V::shuffle_lo_hi(vlo, vhi, m).rd(), want_lo_hi, "{}::shuffle_lo_hi(lo, hi, ShuffleMask4::new{:?})", V, idx);
            check_eq!(cx, $V::shuffle_lo_hi(vlo, vhi, (a, b, c, d)).rd(), want_lo_hi, "{}::shuffle_lo_hi(lo, hi, tuple {:?})", V, idx);
            check_eq!(cx, $V::shuffle_lo_hi(vlo, vhi, [a, b, c, d]).rd(), want_lo_hi, "{}::shuffle_lo_hi(lo, hi, array {:?})", V, idx);
            check_eq!(cx, $V::shuffle_lo_hi(vhi, vlo, (a, b, c, d)).rd(), want_hi_lo, "{}::shuffle_lo_hi(hi, lo, tuple {:?})", V, idx);
            check_eq!(cx, vlo.shuffled(m).rd(), want_self, "{}.shuffled(ShuffleMask4::new{:?})", V, idx);
            check_eq!(cx, vlo.shuffled((a, b, c, d)).rd(), want_self, "{}.shuffled(tuple {:?})", V, idx);
            check_eq!(cx, vlo.shuffled([a, b, c, d]).rd(), want_self, "{}.shuffled(array {:?})", V, idx);
            // From<usize>: the same index for all four lanes
            for k in idx {
                let q = k % 4;
                check_eq!(cx, ShuffleMask4::from(k).to_indices(), (q, q, q, q), "ShuffleMask4::from({}usize).to_indices()", k);
                check_eq!(cx, vlo.shuffled(k).rd(), [lo[q]; 4], "{}.shuffled({}usize)", V, k);
                check_eq!(cx, $V::shuffle_lo_hi(vlo, vhi, k).rd(), [lo[q], lo[q], hi[q], hi[q]], "{}::shuffle_lo_hi(lo, hi, {}usize)", V, k);
            }
            Ok(())
        }
    };
}
shuffle_fn!(shuffle_vec4, Vec4);
shuffle_fn!(shuffle_rgba, Rgba);

fn lanes(var: u64) -> ([Cs; 4], [Cs; 4]) {
    let a = atoms(var);
    ([a[0], a[1], a[2], a[3]], [a[4], a[5], a[6], a[7]])
}

/// index = type * 256 + mask number; the mask number's base-4 digits are the four lane indices, so the 256
/// indices are exactly the 256 values a `ShuffleMask4` can take. Each mask is additionally spelled with
/// out-of-range aliases (+4, +8, +12, and +usize::MAX-3, which is 0 mod 4).
pub const N_MASKS: u64 = 512;
pub fn shuffle_masks(i: u64, cx: &mut Cx) -> CaseResult {
    let (ty, m) = (i / 256, (i % 256) as usize);
    let idx = [m % 4, (m / 4) % 4, (m / 16) % 4, (m / 64) % 4];
    let (lo, hi) = lanes(m as u64 % 8);
    let mut all = lo.to_vec();
    all.extend_from_slice(&hi);
    cx.set_nontrivial(distinct(&all));
    sample!(cx, "{} lo={:?} hi={:?} indices={:?}", if ty == 0 { "Vec4" } else { "Rgba" }, lo, hi, idx);
    let alias = [idx[0] + 4, idx[1] + 8, idx[2] + 12, idx[3] + (usize::MAX - 3)];
    let f = if ty == 0 { shuffle_vec4 } else { shuffle_rgba };
    f(cx, lo, hi, idx)?;
    f(cx, lo, hi, alias)?;
    Ok(())
}

fn gen_index(t: &mut Tape) -> usize {
    match t.below(6) {
        0 => t.below(4),
        1 => 4 + t.below(16),
        2 => usize::MAX - t.below(8),
        3 => {
            let p = 1usize << t.below(64);
            match t.below(3) {
                0 => p.wrapping_sub(1),
                1 => p,
                _ => p.wrapping_add(1),
            }
        }
        _ => t.u64() as usize,
    }
}

/// Arbitrary `usize` index tuples, including >= 4 and `usize::MAX`: indices are taken modulo 4.
pub fn shuffle_indices(t: &mut Tape, cx: &mut Cx) -> CaseResult {
    let idx = [gen_index(t), gen_index(t), gen_index(t), gen_index(t)];
    let (lo, hi) = lanes(t.below(8) as u64);
    let mut all = lo.to_vec();
    all.extend_from_slice(&hi);
    cx.set_nontrivial(distinct(&all) && idx.iter().any(|&k| k >= 4));
    if idx.iter().any(|&k| k == usize::MAX) {
        cx.label("has-usize::MAX");
    }
    if idx.iter().all(|&k| k >= 4) {
        cx.label("all-indices->=4");
    }
    if idx.iter().all(|&k| k < 4) {
        cx.label("all-indices-in-range");
    }
    sample!(cx, "lo={:?} hi={:?} indices={:?}", lo, hi, idx);
    shuffle_vec4(cx, lo, hi, idx)?;
    shuffle_rgba(cx, lo, hi, idx)?;
    // single-index masks written as UNTYPED integer literals, the way user code writes them (`v.shuffled(5)`):
    // whatever integer type inference picks for the literal, index k selects lane k % 4
    {
        let v = Vec4::<Cs>::mk(lo);
        let w = Vec4::<Cs>::mk(hi);
        let b = |k: usize| [lo[k % 4]; 4];
        check_eq!(cx, v.shuffled(0).rd(), b(0), "Vec4.shuffled(0) (literal)");
        check_eq!(cx, v.shuffled(3).rd(), b(3), "Vec4.shuffled(3) (literal)");
        check_eq!(cx, v.shuffled(4).rd(), b(4), "Vec4.shuffled(4) (literal)");
        check_eq!(cx, v.shuffled(5).rd(), b(5), "Vec4.shuffled(5) (literal)");
        check_eq!(cx, v.shuffled(6).rd(), b(6), "Vec4.shuffled(6) (literal)");
        check_eq!(cx, v.shuffled(7).rd(), b(7), "Vec4.shuffled(7) (literal)");
        check_eq!(cx, v.shuffled(255).rd(), b(255), "Vec4.shuffled(255) (literal)");
        check_eq!(cx, v.shuffled(1000).rd(), b(1000), "Vec4.shuffled(1000) (literal)");
        check_eq!(cx, Vec4::shuffle_lo_hi(v, w, 6).rd(), [lo[2], lo[2], hi[2], hi[2]], "Vec4::shuffle_lo_hi(lo, hi, 6) (literal)");
        check_eq!(cx, ShuffleMask4::from(4).to_indices(), (0, 0, 0, 0), "ShuffleMask4::from(4) (literal)");
        check_eq!(cx, ShuffleMask4::from(9).to_indices(), (1, 1, 1, 1), "ShuffleMask4::from(9) (literal)");
        let c = Rgba::<Cs>::mk(lo);
        check_eq!(cx, c.shuffled(5).rd(), b(5), "Rgba.shuffled(5) (literal)");
    }
    Ok(())
}

/// The eight fixed-pattern helpers against the lane diagrams of their doc comments
/// (a = (0,1,2,3), b = (4,5,6,7) in the docs; here: a = lanes a0..a3, b = lanes b0..b3).
pub const N_HELPERS: u64 = 16;
pub fn shuffle_helpers(i: u64, cx: &mut Cx) -> CaseResult {
    let (p, var) = (i % N_HELPERS, i / N_HELPERS);
    let (a, b) = lanes(var);
    let mut all = a.to_vec();
    all.extend_from_slice(&b);
    cx.set_nontrivial(distinct(&all));
    macro_rules! helpers {
        ($V:ident, $k:expr) => {{
            let (va, vb) = ($V::<Cs>::mk(a), $V::<Cs>::mk(b));
            let v = stringify!($V);
            sample!(cx, "{} a={:?} b={:?} helper #{}", v, a, b, $k);
            match $k {
                0 => check_eq!(cx, va.shuffled_0101().rd(), [a[0], a[1], a[0], a[1]], "{}.shuffled_0101()", v),
                1 => check_eq!(cx, va.shuffled_2323().rd(), [a[2], a[3], a[2], a[3]], "{}.shuffled_2323()", v),
                2 => check_eq!(cx, va.shuffled_0022().rd(), [a[0], a[0], a[2], a[2]], "{}.shuffled_0022()", v),
                3 => check_eq!(cx, va.shuffled_1133().rd(), [a[1], a[1], a[3], a[3]], "{}.shuffled_1133()", v),
                4 => check_eq!(cx, $V::interleave_0011(va, vb).rd(), [a[0], b[0], a[1], b[1]], "{}::interleave_0011(a, b)", v),
                5 => check_eq!(cx, $V::interleave_2233(va, vb).rd(), [a[2], b[2], a[3], b[3]], "{}::interleave_2233(a, b)", v),
                6 => check_eq!(cx, $V::shuffle_lo_hi_0101(va, vb).rd(), [a[0], a[1], b[0], b[1]], "{}::shuffle_lo_hi_0101(a, b)", v),
                _ => check_eq!(cx, $V::shuffle_hi_lo_2323(va, vb).rd(), [b[2], b[3], a[2], a[3]], "{}::shuffle_hi_lo_2323(a, b)", v),
            }
        }};
    }
    if p < 8 {
        helpers!(Vec4, p)
    } else {
        helpers!(Rgba, p - 8)
    }
    Ok(())
}
