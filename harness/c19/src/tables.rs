//! Exhaustively enumerated tables: `From` pairs, swizzles / setters, homogeneous constructors, unit vectors.

#![allow(deprecated)]

use crate::cs::*;
use num_traits::{One, Zero};
use std::fmt::Debug;
use std::ops::Neg;
use vek::vec::repr_c::{Extent2, Extent3, Rgb, Rgba, Uv, Uvw, Vec2, Vec3, Vec4};
use vkit::*;

pub const VARIANTS: u64 = 8;

/// `$Dst::from(src)` and `src.into()` read back through the fields of `$Dst`.
macro_rules! conv {
    ($cx:expr, $Dst:ident, $src:expr, $want:expr) => {{
        let src = $src;
        let want = $want;
        sample!($cx, "{}::from({:?}) want {:?}", stringify!($Dst), src, want);
        let got = $Dst::<Cs>::from(src);
        check_eq!($cx, got.rd(), want, "{}::from({:?})", stringify!($Dst), src);
        let got: $Dst<Cs> = src.into();
        check_eq!($cx, got.rd(), want, "Into::<{}>::into({:?})", stringify!($Dst), src);
    }};
}

/// Every `From` impl between the vector types of vek 0.17.1 (src/vec.rs 3172-3180 and 3245-3690):
/// same-size kind changes, shrinking, growing by zero, `(smaller, scalar)` tuples, `Rgba::from(Rgb)`.
/// (Vec8/16/32/64 take part in none.)
pub const N_CONV: u64 = 24;
pub fn conv_table(i: u64, cx: &mut Cx) -> CaseResult {
    let (p, var) = (i % N_CONV, i / N_CONV);
    let a = atoms(var);
    let (x, y, z, w, s) = (a[0], a[1], a[2], a[3], a[4]);
    let (zero, full) = (Cs::zero(), <Cs as vek::ops::ColorComponent>::full());
    cx.set_nontrivial(distinct(&[x, y, z, w, s]));
    match p {
        // ---- Vec2
        0 => conv!(cx, Vec2, Vec3::mk([x, y, z]), [x, y]),
        1 => conv!(cx, Vec2, Vec4::mk([x, y, z, w]), [x, y]),
        2 => conv!(cx, Vec2, Extent2::mk([x, y]), [x, y]),
        // ---- Vec3
        3 => conv!(cx, Vec3, (Vec2::mk([x, y]), s), [x, y, s]),
        4 => conv!(cx, Vec3, Vec2::mk([x, y]), [x, y, zero]),
        5 => conv!(cx, Vec3, Vec4::mk([x, y, z, w]), [x, y, z]),
        6 => conv!(cx, Vec3, Extent3::mk([x, y, z]), [x, y, z]),
        7 => conv!(cx, Vec3, Rgb::mk([x, y, z]), [x, y, z]),
        8 => conv!(cx, Vec3, Uvw::mk([x, y, z]), [x, y, z]),
        // ---- Vec4
        9 => conv!(cx, Vec4, (Vec3::mk([x, y, z]), s), [x, y, z, s]),
        10 => conv!(cx, Vec4, Vec3::mk([x, y, z]), [x, y, z, zero]),
        11 => conv!(cx, Vec4, Vec2::mk([x, y]), [x, y, zero, zero]),
        12 => conv!(cx, Vec4, Rgba::mk([x, y, z, w]), [x, y, z, w]),
        // ---- Extent3 / Extent2
        13 => conv!(cx, Extent3, (Extent2::mk([x, y]), s), [x, y, s]),
        14 => conv!(cx, Extent3, Vec3::mk([x, y, z]), [x, y, z]),
        15 => conv!(cx, Extent2, Vec2::mk([x, y]), [x, y]),
        // ---- Rgba / Rgb
        16 => conv!(cx, Rgba, (Rgb::mk([x, y, z]), s), [x, y, z, s]),
        17 => conv!(cx, Rgba, Vec4::mk([x, y, z, w]), [x, y, z, w]),
        18 => conv!(cx, Rgba, Rgb::mk([x, y, z]), [x, y, z, full]),
        19 => conv!(cx, Rgb, Vec3::mk([x, y, z]), [x, y, z]),
        20 => conv!(cx, Rgb, Rgba::mk([x, y, z, w]), [x, y, z]),
        // ---- Uvw / Uv
        21 => conv!(cx, Uvw, (Uv::mk([x, y]), s), [x, y, s]),
        22 => conv!(cx, Uvw, Vec3::mk([x, y, z]), [x, y, z]),
        23 => conv!(cx, Uv, Vec2::mk([x, y]), [x, y]),
        _ => fail!("conv_table: index {} out of range", i),
    }
    Ok(())
}

macro_rules! op {
    ($cx:expr, $what:expr, $got:expr, $want:expr) => {{
        let want = $want;
        sample!($cx, "{} want {:?}", $what, want);
        check_eq!($cx, $got.rd(), want, "{}", $what);
    }};
}

/// Named swizzles and `with_*` setters (every one that exists), plus the colour reorderings.
pub const N_SWZ: u64 = 24;
pub fn swizzle_table(i: u64, cx: &mut Cx) -> CaseResult {
    let (p, var) = (i % N_SWZ, i / N_SWZ);
    let a = atoms(var);
    let (x, y, z, w, s) = (a[0], a[1], a[2], a[3], a[4]);
    let zero = Cs::zero();
    cx.set_nontrivial(distinct(&[x, y, z, w, s]));
    let v2 = Vec2::mk([x, y]);
    let v3 = Vec3::mk([x, y, z]);
    let v4 = Vec4::mk([x, y, z, w]);
    match p {
        0 => op!(cx, "Vec2(x,y).yx()", v2.yx(), [y, x]),
        1 => op!(cx, "Vec2(x,y).with_x(s)", v2.with_x(s), [s, y]),
        2 => op!(cx, "Vec2(x,y).with_y(s)", v2.with_y(s), [x, s]),
        3 => op!(cx, "Vec2(x,y).with_z(s) -> Vec3", v2.with_z(s), [x, y, s]),
        4 => op!(cx, "Vec2(x,y).with_w(s) -> Vec4 (z = 0)", v2.with_w(s), [x, y, zero, s]),
        5 => op!(cx, "Vec3(x,y,z).zyx()", v3.zyx(), [z, y, x]),
        6 => op!(cx, "Vec3(x,y,z).xy()", v3.xy(), [x, y]),
        7 => op!(cx, "Vec3(x,y,z).with_x(s)", v3.with_x(s), [s, y, z]),
        8 => op!(cx, "Vec3(x,y,z).with_y(s)", v3.with_y(s), [x, s, z]),
        9 => op!(cx, "Vec3(x,y,z).with_z(s)", v3.with_z(s), [x, y, s]),
        10 => op!(cx, "Vec3(x,y,z).with_w(s) -> Vec4", v3.with_w(s), [x, y, z, s]),
        11 => op!(cx, "Vec4(x,y,z,w).wxyz()", v4.wxyz(), [w, x, y, z]),
        12 => op!(cx, "Vec4(x,y,z,w).wzyx()", v4.wzyx(), [w, z, y, x]),
        13 => op!(cx, "Vec4(x,y,z,w).zyxw()", v4.zyxw(), [z, y, x, w]),
        14 => op!(cx, "Vec4(x,y,z,w).xyz()", v4.xyz(), [x, y, z]),
        15 => op!(cx, "Vec4(x,y,z,w).xy()", v4.xy(), [x, y]),
        16 => op!(cx, "Vec4(x,y,z,w).with_x(s)", v4.with_x(s), [s, y, z, w]),
        17 => op!(cx, "Vec4(x,y,z,w).with_y(s)", v4.with_y(s), [x, s, z, w]),
        18 => op!(cx, "Vec4(x,y,z,w).with_z(s)", v4.with_z(s), [x, y, s, w]),
        19 => op!(cx, "Vec4(x,y,z,w).with_w(s)", v4.with_w(s), [x, y, z, s]),
        20 => op!(cx, "Rgba(x,y,z,w).rgb()", Rgba::mk([x, y, z, w]).rgb(), [x, y, z]),
        21 => op!(cx, "Rgba(r,g,b,a).shuffled_argb()", Rgba::mk([x, y, z, w]).shuffled_argb(), [w, x, y, z]),
        22 => op!(cx, "Rgba(r,g,b,a).shuffled_bgra()", Rgba::mk([x, y, z, w]).shuffled_bgra(), [z, y, x, w]),
        23 => op!(cx, "Rgb(r,g,b).shuffled_bgr()", Rgb::mk([x, y, z]).shuffled_bgr(), [z, y, x]),
        _ => fail!("swizzle_table: index {} out of range", i),
    }
    Ok(())
}

/// Homogeneous constructors: w = 1 for points, w = 0 for directions (3D: `Vec4`; 2D: `Vec3`, last
/// coordinate z), from every argument kind that is `Into<Vec3>` / `Into<Vec2>`.
pub const N_HOM: u64 = 28;
pub fn homogeneous_table(i: u64, cx: &mut Cx) -> CaseResult {
    let (p, var) = (i % N_HOM, i / N_HOM);
    let a = atoms(var);
    let (x, y, z, w, s) = (a[0], a[1], a[2], a[3], a[4]);
    let (zero, one) = (Cs::zero(), Cs::one());
    cx.set_nontrivial(distinct(&[x, y, z, w, s]));
    let v2 = Vec2::mk([x, y]);
    let v3 = Vec3::mk([x, y, z]);
    let v4 = Vec4::mk([x, y, z, w]);
    match p {
        0 => op!(cx, "Vec4::new_point(x,y,z)", Vec4::<Cs>::new_point(x, y, z), [x, y, z, one]),
        1 => op!(cx, "Vec4::new_direction(x,y,z)", Vec4::<Cs>::new_direction(x, y, z), [x, y, z, zero]),
        2 => op!(cx, "Vec4::from_point(Vec3)", Vec4::<Cs>::from_point(v3), [x, y, z, one]),
        3 => op!(cx, "Vec4::from_direction(Vec3)", Vec4::<Cs>::from_direction(v3), [x, y, z, zero]),
        4 => op!(cx, "Vec4::from_point(Vec2) (z = 0)", Vec4::<Cs>::from_point(v2), [x, y, zero, one]),
        5 => op!(cx, "Vec4::from_direction(Vec2) (z = 0)", Vec4::<Cs>::from_direction(v2), [x, y, zero, zero]),
        6 => op!(cx, "Vec4::from_point(Vec4) (w replaced)", Vec4::<Cs>::from_point(v4), [x, y, z, one]),
        7 => op!(cx, "Vec4::from_direction(Vec4) (w replaced)", Vec4::<Cs>::from_direction(v4), [x, y, z, zero]),
        8 => op!(cx, "Vec4::from_point((Vec2, s))", Vec4::<Cs>::from_point((v2, s)), [x, y, s, one]),
        9 => op!(cx, "Vec4::from_direction((Vec2, s))", Vec4::<Cs>::from_direction((v2, s)), [x, y, s, zero]),
        10 => op!(cx, "Vec4::from_point(Extent3)", Vec4::<Cs>::from_point(Extent3::mk([x, y, z])), [x, y, z, one]),
        11 => op!(cx, "Vec4::from_direction(Rgb)", Vec4::<Cs>::from_direction(Rgb::mk([x, y, z])), [x, y, z, zero]),
        12 => op!(cx, "Vec4::from_point(Uvw)", Vec4::<Cs>::from_point(Uvw::mk([x, y, z])), [x, y, z, one]),
        13 => op!(cx, "Vec4::from_direction(Extent3)", Vec4::<Cs>::from_direction(Extent3::mk([x, y, z])), [x, y, z, zero]),
        14 => op!(cx, "Vec3::new_point_2d(x,y)", Vec3::<Cs>::new_point_2d(x, y), [x, y, one]),
        15 => op!(cx, "Vec3::new_direction_2d(x,y)", Vec3::<Cs>::new_direction_2d(x, y), [x, y, zero]),
        16 => op!(cx, "Vec3::from_point_2d(Vec2)", Vec3::<Cs>::from_point_2d(v2), [x, y, one]),
        17 => op!(cx, "Vec3::from_direction_2d(Vec2)", Vec3::<Cs>::from_direction_2d(v2), [x, y, zero]),
        18 => op!(cx, "Vec3::from_point_2d(Vec3) (z replaced)", Vec3::<Cs>::from_point_2d(v3), [x, y, one]),
        19 => op!(cx, "Vec3::from_direction_2d(Vec3) (z replaced)", Vec3::<Cs>::from_direction_2d(v3), [x, y, zero]),
        20 => op!(cx, "Vec3::from_point_2d(Vec4)", Vec3::<Cs>::from_point_2d(v4), [x, y, one]),
        21 => op!(cx, "Vec3::from_direction_2d(Vec4)", Vec3::<Cs>::from_direction_2d(v4), [x, y, zero]),
        22 => op!(cx, "Vec3::from_point_2d(Extent2)", Vec3::<Cs>::from_point_2d(Extent2::mk([x, y])), [x, y, one]),
        23 => op!(cx, "Vec3::from_direction_2d(Extent2)", Vec3::<Cs>::from_direction_2d(Extent2::mk([x, y])), [x, y, zero]),
        // arrays and tuples are Into<VecN> as well
        24 => op!(cx, "Vec4::from_point([x,y,z])", Vec4::<Cs>::from_point([x, y, z]), [x, y, z, one]),
        25 => op!(cx, "Vec4::from_direction((x,y,z))", Vec4::<Cs>::from_direction((x, y, z)), [x, y, z, zero]),
        26 => op!(cx, "Vec3::from_point_2d((x,y))", Vec3::<Cs>::from_point_2d((x, y)), [x, y, one]),
        27 => op!(cx, "Vec3::from_direction_2d([x,y])", Vec3::<Cs>::from_direction_2d([x, y]), [x, y, zero]),
        _ => fail!("homogeneous_table: index {} out of range", i),
    }
    Ok(())
}

type Entry<T> = (&'static str, Vec<T>, Vec<T>);

/// Unit vectors and the deprecated direction names that need no negation.
fn unit_entries_pos<T: Copy + Zero + One + PartialEq + Debug>() -> Vec<Entry<T>> {
    let (o, z) = (T::one(), T::zero());
    vec![
        ("Vec2::unit_x", Vec2::<T>::unit_x().rd().to_vec(), vec![o, z]),
        ("Vec2::unit_y", Vec2::<T>::unit_y().rd().to_vec(), vec![z, o]),
        ("Vec2::right (x = 1)", Vec2::<T>::right().rd().to_vec(), vec![o, z]),
        ("Vec2::up (y = 1)", Vec2::<T>::up().rd().to_vec(), vec![z, o]),
        ("Vec3::unit_x", Vec3::<T>::unit_x().rd().to_vec(), vec![o, z, z]),
        ("Vec3::unit_y", Vec3::<T>::unit_y().rd().to_vec(), vec![z, o, z]),
        ("Vec3::unit_z", Vec3::<T>::unit_z().rd().to_vec(), vec![z, z, o]),
        ("Vec3::right (x = 1)", Vec3::<T>::right().rd().to_vec(), vec![o, z, z]),
        ("Vec3::up (y = 1)", Vec3::<T>::up().rd().to_vec(), vec![z, o, z]),
        ("Vec3::forward_lh (z = 1)", Vec3::<T>::forward_lh().rd().to_vec(), vec![z, z, o]),
        ("Vec3::back_rh (z = 1)", Vec3::<T>::back_rh().rd().to_vec(), vec![z, z, o]),
        ("Vec4::unit_x", Vec4::<T>::unit_x().rd().to_vec(), vec![o, z, z, z]),
        ("Vec4::unit_y", Vec4::<T>::unit_y().rd().to_vec(), vec![z, o, z, z]),
        ("Vec4::unit_z", Vec4::<T>::unit_z().rd().to_vec(), vec![z, z, o, z]),
        ("Vec4::unit_w", Vec4::<T>::unit_w().rd().to_vec(), vec![z, z, z, o]),
        ("Vec4::right (x = 1)", Vec4::<T>::right().rd().to_vec(), vec![o, z, z, z]),
        ("Vec4::up (y = 1)", Vec4::<T>::up().rd().to_vec(), vec![z, o, z, z]),
        ("Vec4::forward_lh (z = 1)", Vec4::<T>::forward_lh().rd().to_vec(), vec![z, z, o, z]),
        ("Vec4::back_rh (z = 1)", Vec4::<T>::back_rh().rd().to_vec(), vec![z, z, o, z]),
        ("Vec4::unit_x_point", Vec4::<T>::unit_x_point().rd().to_vec(), vec![o, z, z, o]),
        ("Vec4::unit_y_point", Vec4::<T>::unit_y_point().rd().to_vec(), vec![z, o, z, o]),
        ("Vec4::unit_z_point", Vec4::<T>::unit_z_point().rd().to_vec(), vec![z, z, o, o]),
        ("Vec4::right_point (x = 1)", Vec4::<T>::right_point().rd().to_vec(), vec![o, z, z, o]),
        ("Vec4::up_point (y = 1)", Vec4::<T>::up_point().rd().to_vec(), vec![z, o, z, o]),
        ("Vec4::forward_point_lh (z = 1)", Vec4::<T>::forward_point_lh().rd().to_vec(), vec![z, z, o, o]),
        ("Vec4::back_point_rh (z = 1)", Vec4::<T>::back_point_rh().rd().to_vec(), vec![z, z, o, o]),
    ]
}
/// The direction names documented with a −1 component.
fn unit_entries_neg<T: Copy + Zero + One + Neg<Output = T> + PartialEq + Debug>() -> Vec<Entry<T>> {
    let (o, z, n) = (T::one(), T::zero(), -T::one());
    vec![
        ("Vec2::left (x = -1)", Vec2::<T>::left().rd().to_vec(), vec![n, z]),
        ("Vec2::down (y = -1)", Vec2::<T>::down().rd().to_vec(), vec![z, n]),
        ("Vec3::left (x = -1)", Vec3::<T>::left().rd().to_vec(), vec![n, z, z]),
        ("Vec3::down (y = -1)", Vec3::<T>::down().rd().to_vec(), vec![z, n, z]),
        ("Vec3::forward_rh (z = -1)", Vec3::<T>::forward_rh().rd().to_vec(), vec![z, z, n]),
        ("Vec3::back_lh (z = -1)", Vec3::<T>::back_lh().rd().to_vec(), vec![z, z, n]),
        ("Vec4::left (x = -1)", Vec4::<T>::left().rd().to_vec(), vec![n, z, z, z]),
        ("Vec4::down (y = -1)", Vec4::<T>::down().rd().to_vec(), vec![z, n, z, z]),
        ("Vec4::forward_rh (z = -1)", Vec4::<T>::forward_rh().rd().to_vec(), vec![z, z, n, z]),
        ("Vec4::back_lh (z = -1)", Vec4::<T>::back_lh().rd().to_vec(), vec![z, z, n, z]),
        ("Vec4::left_point (x = -1)", Vec4::<T>::left_point().rd().to_vec(), vec![n, z, z, o]),
        ("Vec4::down_point (y = -1)", Vec4::<T>::down_point().rd().to_vec(), vec![z, n, z, o]),
        ("Vec4::forward_point_rh (z = -1)", Vec4::<T>::forward_point_rh().rd().to_vec(), vec![z, z, n, o]),
        ("Vec4::back_point_lh (z = -1)", Vec4::<T>::back_point_lh().rd().to_vec(), vec![z, z, n, o]),
    ]
}

pub const N_UNIT_POS: u64 = 26;
pub const N_UNIT_NEG: u64 = 14;
pub const N_UNIT: u64 = N_UNIT_POS + N_UNIT_NEG;
/// element types: i32, i64, f32, f64, Rat (all 40 names) and u8, Cs (the 26 names without negation)
pub const N_UNIT_TOTAL: u64 = 5 * N_UNIT + 2 * N_UNIT_POS;

fn unit_one<T: PartialEq + Debug>(cx: &mut Cx, ty: &'static str, list: Vec<Entry<T>>, want_len: u64, k: u64) -> CaseResult {
    check_eq!(cx, list.len() as u64, want_len, "harness: unit table length for {}", ty);
    let (name, got, want) = &list[k as usize];
    sample!(cx, "{}::<{}>() want {:?}", name, ty, want);
    let mut all: Vec<&T> = Vec::new();
    for x in want.iter() {
        if !all.contains(&x) {
            all.push(x);
        }
    }
    cx.set_nontrivial(all.len() >= 2);
    check_eq!(cx, got, want, "{}::<{}>()", name, ty);
    Ok(())
}

pub fn unit_table(i: u64, cx: &mut Cx) -> CaseResult {
    macro_rules! full {
        ($T:ty, $k:expr) => {{
            let k = $k;
            if k < N_UNIT_POS {
                unit_one(cx, stringify!($T), unit_entries_pos::<$T>(), N_UNIT_POS, k)
            } else {
                unit_one(cx, stringify!($T), unit_entries_neg::<$T>(), N_UNIT_NEG, k - N_UNIT_POS)
            }
        }};
    }
    if i < 5 * N_UNIT {
        let (ty, k) = (i / N_UNIT, i % N_UNIT);
        match ty {
            0 => full!(i32, k),
            1 => full!(i64, k),
            2 => full!(f32, k),
            3 => full!(f64, k),
            _ => full!(Rat, k),
        }
    } else {
        let j = i - 5 * N_UNIT;
        let (ty, k) = (j / N_UNIT_POS, j % N_UNIT_POS);
        match ty {
            0 => unit_one(cx, "u8", unit_entries_pos::<u8>(), N_UNIT_POS, k),
            1 => unit_one(cx, "Cs", unit_entries_pos::<Cs>(), N_UNIT_POS, k),
            _ => fail!("unit_table: index {} out of range", i),
        }
    }
}
