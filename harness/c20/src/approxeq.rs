//! AbsDiffEq / RelativeEq / UlpsEq on vectors, matrices (both layouts) and quaternions hold exactly
//! when the scalar predicate holds for every pair of corresponding elements with the same tolerances.

use crate::io::*;
use crate::vec_table;
use approx::{AbsDiffEq, RelativeEq, UlpsEq};
use vek::mat::repr_c::column_major as cm;
use vek::mat::repr_c::row_major as rm;
use vek::quaternion::repr_c::Quaternion;
use vkit::*;

pub trait ApproxS:
    Sc + AbsDiffEq<Epsilon = Self> + RelativeEq + UlpsEq + std::ops::Div<Output = Self> + std::ops::Mul<Output = Self> + std::ops::Sub<Output = Self>
{
    fn f(x: f64) -> Self;
    fn up(self, ulps: u32) -> Self;
    const EPS: Self;
    const INF: Self;
    const NAN: Self;
    const MAXV: Self;
    fn tiny() -> Self;
}
macro_rules! approx_s {
    ($($t:ident $u:ident)+) => { $(
        impl ApproxS for $t {
            fn f(x: f64) -> Self { x as $t }
            /// `ulps` representable values further from zero
            fn up(self, ulps: u32) -> Self { <$t>::from_bits(self.to_bits() + ulps as $u) }
            const EPS: Self = <$t>::EPSILON;
            const INF: Self = <$t>::INFINITY;
            const NAN: Self = <$t>::NAN;
            const MAXV: Self = <$t>::MAX;
            fn tiny() -> Self { <$t>::from_bits(1) }
        }
    )+ };
}
approx_s!(f32 u32 f64 u64);

pub const KINDS: usize = 24;

/// The pair placed in the varied position.
pub fn pair<F: ApproxS>(kind: usize) -> (F, F, &'static str) {
    let one = F::f(1.0);
    let e = F::EPS;
    match kind {
        0 => (F::f(1.25), F::f(1.25), "equal"),
        1 => (one, one.up(1), "1ulp-at-1(=eps)"),
        2 => (one, one.up(2), "2ulp-at-1(=2eps)"),
        3 => (one, one.up(4), "4ulp"),
        4 => (one, one.up(5), "5ulp"),
        5 => (F::f(1000.0), F::f(1000.0).up(1), "1ulp-at-1000"),
        6 => (F::f(1000.0), F::f(1000.0).up(17), "17ulp-at-1000"),
        7 => (F::f(0.0), e, "eps-at-zero"),
        8 => (F::f(0.0), F::f(2.0) * e, "2eps-at-zero"),
        9 => (F::f(0.0), F::f(-0.0), "sign-of-zero"),
        10 => (F::NAN, F::NAN, "nan-nan"),
        11 => (F::NAN, one, "nan-vs-1"),
        12 => (F::INF, F::INF, "inf-inf"),
        13 => (F::INF, F::f(0.0) - F::INF, "inf-vs-neg-inf"),
        14 => (F::f(0.0) - F::INF, F::f(0.0) - F::INF, "neginf-neginf"),
        15 => (F::INF, F::MAXV, "inf-vs-max"),
        16 => (F::f(1e-10), F::f(2e-10), "small-abs-large-rel"),
        17 => (F::f(1e10), F::f(1e10).up(3), "large-abs-small-rel"),
        18 => (one, F::f(1.5), "plain-0.5"),
        19 => (e / F::f(4.0), F::f(0.0) - e / F::f(4.0), "tiny-opposite-signs"),
        20 => (F::tiny(), F::f(0.0), "subnormal-vs-zero"),
        21 => (F::MAXV, F::f(0.0) - F::MAXV, "max-vs-neg-max"),
        22 => (one, F::f(1.001), "rel-1e-3"),
        _ => (F::f(-2.0), F::f(-2.0).up(1), "1ulp-negative"),
    }
}

fn eps_set<F: ApproxS>() -> [F; 7] {
    [F::f(0.0), F::EPS / F::f(2.0), F::EPS, F::f(2.0) * F::EPS, F::f(1e-3), F::f(1.0), F::INF]
}
fn rel_set<F: ApproxS>() -> [F; 5] {
    [F::f(0.0), F::EPS, F::f(1e-3), F::f(2e-3), F::f(0.6)]
}
const ULPS_SET: [u32; 6] = [0, 1, 4, 5, 16, 1000];

pub trait ApproxC<F: ApproxS, const K: usize>: Flat<F, K> + AbsDiffEq<Epsilon = F> + RelativeEq + UlpsEq {}
impl<F: ApproxS, const K: usize, C> ApproxC<F, K> for C where C: Flat<F, K> + AbsDiffEq<Epsilon = F> + RelativeEq + UlpsEq {}

struct Seen {
    t: bool,
    f: bool,
}

/// All three predicates with the given tolerances against the conjunction of the scalar predicate.
fn judge<F: ApproxS, C: ApproxC<F, K>, const K: usize>(cx: &mut Cx, a: &[F; K], b: &[F; K], eps: F, rel: F, ulps: u32, seen: &mut Seen) -> CaseResult {
    let (ca, cb) = (C::mkf(a), C::mkf(b));
    let want = (0..K).all(|i| F::abs_diff_eq(&a[i], &b[i], eps));
    check_eq!(cx, ca.abs_diff_eq(&cb, eps), want, "{}<{}>::abs_diff_eq eps={:?}\n a={:?}\n b={:?}\n per element {:?}", C::NAME, F::NAME, eps, a, b, (0..K).map(|i| F::abs_diff_eq(&a[i], &b[i], eps)).collect::<Vec<_>>());
    check_eq!(cx, ca.abs_diff_ne(&cb, eps), !want, "{}<{}>::abs_diff_ne eps={:?} a={:?} b={:?}", C::NAME, F::NAME, eps, a, b);
    if want { seen.t = true; } else { seen.f = true; }
    let want = (0..K).all(|i| F::relative_eq(&a[i], &b[i], eps, rel));
    check_eq!(cx, ca.relative_eq(&cb, eps, rel), want, "{}<{}>::relative_eq eps={:?} max_relative={:?}\n a={:?}\n b={:?}\n per element {:?}", C::NAME, F::NAME, eps, rel, a, b, (0..K).map(|i| F::relative_eq(&a[i], &b[i], eps, rel)).collect::<Vec<_>>());
    if want { seen.t = true; } else { seen.f = true; }
    let want = (0..K).all(|i| F::ulps_eq(&a[i], &b[i], eps, ulps));
    check_eq!(cx, ca.ulps_eq(&cb, eps, ulps), want, "{}<{}>::ulps_eq eps={:?} max_ulps={}\n a={:?}\n b={:?}\n per element {:?}", C::NAME, F::NAME, eps, ulps, a, b, (0..K).map(|i| F::ulps_eq(&a[i], &b[i], eps, ulps)).collect::<Vec<_>>());
    if want { seen.t = true; } else { seen.f = true; }
    Ok(())
}

fn defaults<F: ApproxS, C: ApproxC<F, K>, const K: usize>(cx: &mut Cx) -> CaseResult {
    check!(cx, C::default_epsilon().same(F::default_epsilon()), "{}<{}>::default_epsilon() = {:?}, scalar's is {:?}", C::NAME, F::NAME, C::default_epsilon(), F::default_epsilon());
    check!(cx, C::default_max_relative().same(F::default_max_relative()), "{}<{}>::default_max_relative() = {:?}, scalar's is {:?}", C::NAME, F::NAME, C::default_max_relative(), F::default_max_relative());
    check_eq!(cx, C::default_max_ulps(), F::default_max_ulps(), "{}<{}>::default_max_ulps()", C::NAME, F::NAME);
    Ok(())
}

fn base<F: ApproxS, const K: usize>() -> [F; K] {
    let mut a = [F::f(0.0); K];
    for i in 0..K {
        a[i] = F::f(1.0 + 0.25 * i as f64);
    }
    a
}

/// idx = (p * KINDS + kind) * 2 + swap: equal everywhere except position p.
pub fn one_lane<F: ApproxS, C: ApproxC<F, K>, const K: usize>(idx: u64, cx: &mut Cx) -> CaseResult {
    let swap = idx % 2 == 1;
    let kind = ((idx / 2) % KINDS as u64) as usize;
    let p = (idx / 2 / KINDS as u64) as usize;
    let mut a: [F; K] = base();
    let mut b = a;
    let (x, y, label) = pair::<F>(kind);
    a[p] = x;
    b[p] = y;
    if swap {
        std::mem::swap(&mut a, &mut b);
    }
    sample!(cx, "{}<{}> position {} differs ({}): a={:?} b={:?}; all tolerance combinations", C::NAME, F::NAME, p, label, a, b);
    cx.label(label);
    defaults::<F, C, K>(cx)?;
    let mut seen = Seen { t: false, f: false };
    for eps in eps_set::<F>() {
        for rel in rel_set::<F>() {
            for ulps in ULPS_SET {
                judge::<F, C, K>(cx, &a, &b, eps, rel, ulps, &mut seen)?;
            }
        }
    }
    judge::<F, C, K>(cx, &a, &b, F::default_epsilon(), F::default_max_relative(), F::default_max_ulps(), &mut seen)?;
    if seen.f { cx.label("varied-position-decides-false"); }
    if seen.t { cx.label("holds-for-some-tolerance"); }
    // the other positions are identical, so a `false` is decided by the varied position alone
    cx.set_nontrivial(seen.f);
    Ok(())
}

/// Every position draws its own kind (mostly "equal"); single tolerance triple from the tape.
pub fn mixed<F: ApproxS, C: ApproxC<F, K>, const K: usize>(t: &mut Tape, cx: &mut Cx) -> CaseResult {
    let mut a: [F; K] = base();
    let mut b = a;
    let mut differing = 0;
    // about 1..3 differing positions whatever K is
    for i in 0..K {
        if t.below(K + 2) < 2 {
            let kind = 1 + t.below(KINDS - 1);
            let (x, y, _) = pair::<F>(kind);
            if t.bool() { a[i] = x; b[i] = y; } else { a[i] = y; b[i] = x; }
            differing += 1;
        }
    }
    let eps = eps_set::<F>()[t.below(7)];
    let rel = rel_set::<F>()[t.below(5)];
    let ulps = ULPS_SET[t.below(6)];
    sample!(cx, "{}<{}> eps={:?} max_relative={:?} max_ulps={} a={:?} b={:?}", C::NAME, F::NAME, eps, rel, ulps, a, b);
    let mut seen = Seen { t: false, f: false };
    judge::<F, C, K>(cx, &a, &b, eps, rel, ulps, &mut seen)?;
    cx.label(match differing { 0 => "0-differing", 1 => "1-differing", 2 => "2-differing", _ => "3+-differing" });
    if seen.t && differing > 0 { cx.label("differing-but-within-tolerance"); }
    if seen.f { cx.label("some-predicate-false"); }
    cx.set_nontrivial(differing > 0);
    Ok(())
}

macro_rules! tables {
    ($f:ident, $F:ty, $Fn:ty) => {{
        let mut v: Vec<(usize, $Fn)> = vec_table!($f, $F, $Fn).to_vec();
        v.push((4, $f::<$F, rm::Mat2<$F>, 4> as $Fn));
        v.push((9, $f::<$F, rm::Mat3<$F>, 9> as $Fn));
        v.push((16, $f::<$F, rm::Mat4<$F>, 16> as $Fn));
        v.push((4, $f::<$F, cm::Mat2<$F>, 4> as $Fn));
        v.push((9, $f::<$F, cm::Mat3<$F>, 9> as $Fn));
        v.push((16, $f::<$F, cm::Mat4<$F>, 16> as $Fn));
        v.push((4, $f::<$F, Quaternion<$F>, 4> as $Fn));
        v
    }};
}

/// 13 vector types (146 positions), 6 matrices (58 positions), quaternion (4).
pub const POSITIONS: u64 = 146 + 58 + 4;
pub const ONE_LANE_TOTAL: u64 = POSITIONS * KINDS as u64 * 2;

pub fn one_lane_all<F: ApproxS>(idx: u64, cx: &mut Cx) -> CaseResult {
    let tab: Vec<(u64, IdxFn)> = tables!(one_lane, F, IdxFn).iter().map(|(n, f)| (*n as u64 * KINDS as u64 * 2, *f)).collect();
    dispatch(idx, &tab, cx)
}
pub fn mixed_all<F: ApproxS>(t: &mut Tape, cx: &mut Cx) -> CaseResult {
    let tab = tables!(mixed, F, TapeFn);
    let k = t.below(tab.len());
    (tab[k].1)(t, cx)
}
