//! AbsDiffEq / RelativeEq / UlpsEq on vectors, matrices (both layouts) and quaternions hold exactly
//! when the scalar predicate holds for every pair of corresponding elements with the same tolerances.
//!
//! Operand forms: two distinct objects (`a.op(&b)`), the SAME object (`a.op(&a)`: an identity
//! early-out is wrong whenever a lane is not approximately equal to itself — NaN, inf under
//! abs_diff_eq, a negative or NaN epsilon), and a bitwise copy held in another variable.
//! Every `_eq` is accompanied by its `_ne` (the trait's own, overridable, method), and by `==` / `!=`.

use crate::io::*;
use crate::vec_table;
use approx::{AbsDiffEq, RelativeEq, UlpsEq};
use vek::mat::repr_c::column_major as cm;
use vek::mat::repr_c::row_major as rm;
use vek::quaternion::repr_c::Quaternion;
use vkit::*;

pub trait ApproxS:
    Sc + AbsDiffEq<Epsilon = Self> + RelativeEq + UlpsEq + std::ops::Div<Output = Self> + std::ops::Mul<Output = Self> + std::ops::Sub<Output = Self> + std::ops::Add<Output = Self> + std::ops::Neg<Output = Self>
{
    fn f(x: f64) -> Self;
    fn up(self, ulps: u32) -> Self;
    const EPS: Self;
    const INF: Self;
    const NAN: Self;
    const MAXV: Self;
    const MINPOS: Self;
    fn tiny() -> Self;
    /// NaN with the sign bit set
    fn neg_nan() -> Self;
    fn is_nan_(self) -> bool;
    fn is_inf_(self) -> bool;
}
macro_rules! approx_s {
    ($($t:ident $u:ident)+) => { $(
        impl ApproxS for $t {
            fn f(x: f64) -> Self { x as $t }
            /// `ulps` representable values further from zero
            fn up(self, ulps: u32) -> Self { <$t>::from_bits(self.to_bits() + ulps as $u) }
            const EPS: Self = <$t>::EPSILON;
            const INF: Self = <$t>::INFINITY;
            const NAN: Self = <$t>::NAN;
            const MAXV: Self = <$t>::MAX;
            const MINPOS: Self = <$t>::MIN_POSITIVE;
            fn tiny() -> Self { <$t>::from_bits(1) }
            fn neg_nan() -> Self { -<$t>::NAN }
            fn is_nan_(self) -> bool { self.is_nan() }
            fn is_inf_(self) -> bool { self.is_infinite() }
        }
    )+ };
}
approx_s!(f32 u32 f64 u64);

pub const KINDS: usize = 24;

/// The pair placed in the varied position.
pub fn pair<F: ApproxS>(kind: usize) -> (F, F, &'static str) {
    let one = F::f(1.0);
    let e = F::EPS;
    match kind {
        0 => (F::f(1.25), F::f(1.25), "equal"),
        1 => (one, one.up(1), "1ulp-at-1(=eps)"),
        2 => (one, one.up(2), "2ulp-at-1(=2eps)"),
        3 => (one, one.up(4), "4ulp"),
        4 => (one, one.up(5), "5ulp"),
        5 => (F::f(1000.0), F::f(1000.0).up(1), "1ulp-at-1000"),
        6 => (F::f(1000.0), F::f(1000.0).up(17), "17ulp-at-1000"),
        7 => (F::f(0.0), e, "eps-at-zero"),
        8 => (F::f(0.0), F::f(2.0) * e, "2eps-at-zero"),
        9 => (F::f(0.0), F::f(-0.0), "sign-of-zero"),
        10 => (F::NAN, F::NAN, "nan-nan"),
        11 => (F::NAN, one, "nan-vs-1"),
        12 => (F::INF, F::INF, "inf-inf"),
        13 => (F::INF, F::f(0.0) - F::INF, "inf-vs-neg-inf"),
        14 => (F::f(0.0) - F::INF, F::f(0.0) - F::INF, "neginf-neginf"),
        15 => (F::INF, F::MAXV, "inf-vs-max"),
        16 => (F::f(1e-10), F::f(2e-10), "small-abs-large-rel"),
        17 => (F::f(1e10), F::f(1e10).up(3), "large-abs-small-rel"),
        18 => (one, F::f(1.5), "plain-0.5"),
        19 => (e / F::f(4.0), F::f(0.0) - e / F::f(4.0), "tiny-opposite-signs"),
        20 => (F::tiny(), F::f(0.0), "subnormal-vs-zero"),
        21 => (F::MAXV, F::f(0.0) - F::MAXV, "max-vs-neg-max"),
        22 => (one, F::f(1.001), "rel-1e-3"),
        _ => (F::f(-2.0), F::f(-2.0).up(1), "1ulp-negative"),
    }
}

fn eps_set<F: ApproxS>() -> [F; 7] {
    [F::f(0.0), F::EPS / F::f(2.0), F::EPS, F::f(2.0) * F::EPS, F::f(1e-3), F::f(1.0), F::INF]
}
fn rel_set<F: ApproxS>() -> [F; 5] {
    [F::f(0.0), F::EPS, F::f(1e-3), F::f(2e-3), F::f(0.6)]
}
const ULPS_SET: [u32; 6] = [0, 1, 4, 5, 16, 1000];

// Unusual tolerances: nothing in approx's docs restricts them, the scalar impl accepts them and is the rule.
pub const N_EPS_W: usize = 13;
pub const N_REL_W: usize = 10;
pub const N_ULPS_W: usize = 9;
fn eps_wide<F: ApproxS>() -> [F; N_EPS_W] {
    let z = F::f(0.0);
    [z, F::f(-0.0), F::tiny(), F::EPS, F::f(1e-3), F::f(1.0), F::MAXV, F::INF, z - F::EPS, F::f(-1.0), z - F::INF, F::NAN, F::f(2.5)]
}
fn rel_wide<F: ApproxS>() -> [F; N_REL_W] {
    [F::f(0.0), F::EPS, F::f(1e-3), F::f(0.6), F::f(1.0), F::f(1.5), F::f(1e10), F::INF, F::f(-1.0), F::NAN]
}
const ULPS_WIDE: [u32; N_ULPS_W] = [0, 1, 4, 1000, i32::MAX as u32 - 1, i32::MAX as u32, 1 << 31, u32::MAX - 1, u32::MAX];

pub trait ApproxC<F: ApproxS, const K: usize>: Flat<F, K> + PartialEq + AbsDiffEq<Epsilon = F> + RelativeEq + UlpsEq {}
impl<F: ApproxS, const K: usize, C> ApproxC<F, K> for C where C: Flat<F, K> + PartialEq + AbsDiffEq<Epsilon = F> + RelativeEq + UlpsEq {}

#[derive(Default)]
struct Seen {
    t: bool,
    f: bool,
}
impl Seen {
    fn put(&mut self, want: bool) {
        if want { self.t = true; } else { self.f = true; }
    }
}

/// The operands of one judgement: `l.op(r, ..)`; `a` / `b` are the element values of `*l` / `*r`
/// (for the aliased form `r` IS `l` and `b == a` bit for bit).
struct Ops<'x, F, C, const K: usize> {
    l: &'x C,
    r: &'x C,
    a: &'x [F; K],
    b: &'x [F; K],
    form: &'static str,
}

fn j_abs<F: ApproxS, C: ApproxC<F, K>, const K: usize>(cx: &mut Cx, o: &Ops<F, C, K>, eps: F, seen: &mut Seen) -> CaseResult {
    let (a, b) = (o.a, o.b);
    let want = (0..K).all(|i| F::abs_diff_eq(&a[i], &b[i], eps));
    check_eq!(cx, o.l.abs_diff_eq(o.r, eps), want, "{}<{}>::abs_diff_eq [{}] eps={:?}\n a={:?}\n b={:?}\n per element {:?}", C::NAME, F::NAME, o.form, eps, a, b, (0..K).map(|i| F::abs_diff_eq(&a[i], &b[i], eps)).collect::<Vec<_>>());
    check_eq!(cx, o.l.abs_diff_ne(o.r, eps), !want, "{}<{}>::abs_diff_ne [{}] eps={:?} a={:?} b={:?}", C::NAME, F::NAME, o.form, eps, a, b);
    seen.put(want);
    Ok(())
}
fn j_rel<F: ApproxS, C: ApproxC<F, K>, const K: usize>(cx: &mut Cx, o: &Ops<F, C, K>, eps: F, rel: F, seen: &mut Seen) -> CaseResult {
    let (a, b) = (o.a, o.b);
    let want = (0..K).all(|i| F::relative_eq(&a[i], &b[i], eps, rel));
    check_eq!(cx, o.l.relative_eq(o.r, eps, rel), want, "{}<{}>::relative_eq [{}] eps={:?} max_relative={:?}\n a={:?}\n b={:?}\n per element {:?}", C::NAME, F::NAME, o.form, eps, rel, a, b, (0..K).map(|i| F::relative_eq(&a[i], &b[i], eps, rel)).collect::<Vec<_>>());
    check_eq!(cx, o.l.relative_ne(o.r, eps, rel), !want, "{}<{}>::relative_ne [{}] eps={:?} max_relative={:?} a={:?} b={:?}", C::NAME, F::NAME, o.form, eps, rel, a, b);
    seen.put(want);
    Ok(())
}
fn j_ulps<F: ApproxS, C: ApproxC<F, K>, const K: usize>(cx: &mut Cx, o: &Ops<F, C, K>, eps: F, ulps: u32, seen: &mut Seen) -> CaseResult {
    let (a, b) = (o.a, o.b);
    let want = (0..K).all(|i| F::ulps_eq(&a[i], &b[i], eps, ulps));
    check_eq!(cx, o.l.ulps_eq(o.r, eps, ulps), want, "{}<{}>::ulps_eq [{}] eps={:?} max_ulps={}\n a={:?}\n b={:?}\n per element {:?}", C::NAME, F::NAME, o.form, eps, ulps, a, b, (0..K).map(|i| F::ulps_eq(&a[i], &b[i], eps, ulps)).collect::<Vec<_>>());
    check_eq!(cx, o.l.ulps_ne(o.r, eps, ulps), !want, "{}<{}>::ulps_ne [{}] eps={:?} max_ulps={} a={:?} b={:?}", C::NAME, F::NAME, o.form, eps, ulps, a, b);
    seen.put(want);
    Ok(())
}
/// `==` / `!=`: all lanes `==` / some lane `!=` by the scalar's own PartialEq (NaN != NaN, 0 == -0).
fn j_peq<F: ApproxS, C: ApproxC<F, K>, const K: usize>(cx: &mut Cx, o: &Ops<F, C, K>) -> CaseResult {
    let (a, b) = (o.a, o.b);
    let want = (0..K).all(|i| a[i] == b[i]);
    check_eq!(cx, *o.l == *o.r, want, "{}<{}>: `==` [{}] a={:?} b={:?}", C::NAME, F::NAME, o.form, a, b);
    check_eq!(cx, *o.l != *o.r, (0..K).any(|i| a[i] != b[i]), "{}<{}>: `!=` [{}] a={:?} b={:?}", C::NAME, F::NAME, o.form, a, b);
    Ok(())
}

/// All three predicates (and their `_ne`) with one tolerance triple.
fn judge_ops<F: ApproxS, C: ApproxC<F, K>, const K: usize>(cx: &mut Cx, o: &Ops<F, C, K>, eps: F, rel: F, ulps: u32, seen: &mut Seen) -> CaseResult {
    j_abs(cx, o, eps, seen)?;
    j_rel(cx, o, eps, rel, seen)?;
    j_ulps(cx, o, eps, ulps, seen)
}

/// The unusual tolerances: every epsilon with abs_diff, every (epsilon, max_relative), every (epsilon, max_ulps).
fn judge_wide<F: ApproxS, C: ApproxC<F, K>, const K: usize>(cx: &mut Cx, o: &Ops<F, C, K>, seen: &mut Seen) -> CaseResult {
    for eps in eps_wide::<F>() {
        j_abs(cx, o, eps, seen)?;
        for rel in rel_wide::<F>() {
            j_rel(cx, o, eps, rel, seen)?;
        }
        for ulps in ULPS_WIDE {
            j_ulps(cx, o, eps, ulps, seen)?;
        }
    }
    Ok(())
}

/// The approx crate's own front ends (what `assert_relative_eq!(v, w)` etc. expand to), default tolerances.
fn judge_macros<F: ApproxS, C: ApproxC<F, K>, const K: usize>(cx: &mut Cx, o: &Ops<F, C, K>) -> CaseResult {
    let (a, b) = (o.a, o.b);
    let (de, dr, du) = (F::default_epsilon(), F::default_max_relative(), F::default_max_ulps());
    let want = (0..K).all(|i| F::abs_diff_eq(&a[i], &b[i], de));
    check_eq!(cx, approx::abs_diff_eq!(*o.l, *o.r), want, "abs_diff_eq!({}<{}>) [{}] a={:?} b={:?}", C::NAME, F::NAME, o.form, a, b);
    check_eq!(cx, approx::abs_diff_ne!(*o.l, *o.r), !want, "abs_diff_ne!({}<{}>) [{}] a={:?} b={:?}", C::NAME, F::NAME, o.form, a, b);
    let want = (0..K).all(|i| F::relative_eq(&a[i], &b[i], de, dr));
    check_eq!(cx, approx::relative_eq!(*o.l, *o.r), want, "relative_eq!({}<{}>) [{}] a={:?} b={:?}", C::NAME, F::NAME, o.form, a, b);
    check_eq!(cx, approx::relative_ne!(*o.l, *o.r), !want, "relative_ne!({}<{}>) [{}] a={:?} b={:?}", C::NAME, F::NAME, o.form, a, b);
    let want = (0..K).all(|i| F::ulps_eq(&a[i], &b[i], de, du));
    check_eq!(cx, approx::ulps_eq!(*o.l, *o.r), want, "ulps_eq!({}<{}>) [{}] a={:?} b={:?}", C::NAME, F::NAME, o.form, a, b);
    check_eq!(cx, approx::ulps_ne!(*o.l, *o.r), !want, "ulps_ne!({}<{}>) [{}] a={:?} b={:?}", C::NAME, F::NAME, o.form, a, b);
    Ok(())
}

fn defaults<F: ApproxS, C: ApproxC<F, K>, const K: usize>(cx: &mut Cx) -> CaseResult {
    check!(cx, C::default_epsilon().same(F::default_epsilon()), "{}<{}>::default_epsilon() = {:?}, scalar's is {:?}", C::NAME, F::NAME, C::default_epsilon(), F::default_epsilon());
    check!(cx, C::default_max_relative().same(F::default_max_relative()), "{}<{}>::default_max_relative() = {:?}, scalar's is {:?}", C::NAME, F::NAME, C::default_max_relative(), F::default_max_relative());
    check_eq!(cx, C::default_max_ulps(), F::default_max_ulps(), "{}<{}>::default_max_ulps()", C::NAME, F::NAME);
    Ok(())
}

fn base<F: ApproxS, const K: usize>() -> [F; K] {
    let mut a = [F::f(0.0); K];
    for i in 0..K {
        a[i] = F::f(1.0 + 0.25 * i as f64);
    }
    a
}

/// idx = (p * KINDS + kind) * 2 + swap: equal everywhere except position p.
pub fn one_lane<F: ApproxS, C: ApproxC<F, K>, const K: usize>(idx: u64, cx: &mut Cx) -> CaseResult {
    let swap = idx % 2 == 1;
    let kind = ((idx / 2) % KINDS as u64) as usize;
    let p = (idx / 2 / KINDS as u64) as usize;
    let mut a: [F; K] = base();
    let mut b = a;
    let (x, y, label) = pair::<F>(kind);
    a[p] = x;
    b[p] = y;
    if swap {
        std::mem::swap(&mut a, &mut b);
    }
    sample!(cx, "{}<{}> position {} differs ({}): a={:?} b={:?}; all tolerance combinations", C::NAME, F::NAME, p, label, a, b);
    cx.label(label);
    defaults::<F, C, K>(cx)?;
    let (ca, cb) = (C::mkf(&a), C::mkf(&b));
    let o = Ops { l: &ca, r: &cb, a: &a, b: &b, form: "two objects" };
    let mut seen = Seen::default();
    for eps in eps_set::<F>() {
        for rel in rel_set::<F>() {
            for ulps in ULPS_SET {
                judge_ops(cx, &o, eps, rel, ulps, &mut seen)?;
            }
        }
    }
    judge_ops(cx, &o, F::default_epsilon(), F::default_max_relative(), F::default_max_ulps(), &mut seen)?;
    // unusual tolerances (negative / NaN / inf epsilon, max_relative 0 / >1 / NaN, max_ulps up to u32::MAX)
    let mut seen_wide = Seen::default();
    judge_wide(cx, &o, &mut seen_wide)?;
    judge_macros(cx, &o)?;
    j_peq(cx, &o)?;
    if seen_wide.t { cx.label("holds-for-some-unusual-tolerance"); }
    if seen.f { cx.label("varied-position-decides-false"); }
    if seen.t { cx.label("holds-for-some-tolerance"); }
    // the other positions are identical, so a `false` is decided by the varied position alone
    cx.set_nontrivial(seen.f);
    Ok(())
}

/// Every position draws its own kind (mostly "equal"); single tolerance triple from the tape.
/// Regimes: ordinary tolerances / unusual tolerances; two objects / the same object / a bitwise copy.
pub fn mixed<F: ApproxS, C: ApproxC<F, K>, const K: usize>(t: &mut Tape, cx: &mut Cx) -> CaseResult {
    let mut a: [F; K] = base();
    let mut b = a;
    let mut differing = 0;
    // about 1..3 differing positions whatever K is
    for i in 0..K {
        if t.below(K + 2) < 2 {
            let kind = 1 + t.below(KINDS - 1);
            let (x, y, _) = pair::<F>(kind);
            if t.bool() { a[i] = x; b[i] = y; } else { a[i] = y; b[i] = x; }
            differing += 1;
        }
    }
    let (eps, rel, ulps) = if t.chance(96) {
        cx.label("unusual-tolerances");
        (eps_wide::<F>()[t.below(N_EPS_W)], rel_wide::<F>()[t.below(N_REL_W)], ULPS_WIDE[t.below(N_ULPS_W)])
    } else {
        (eps_set::<F>()[t.below(7)], rel_set::<F>()[t.below(5)], ULPS_SET[t.below(6)])
    };
    // operand form: 0 = two objects, 1 = the same object on both sides, 2 = a bitwise copy of it
    let form = if t.chance(64) { 1 + t.below(2) } else { 0 };
    if form != 0 {
        // both sides hold a's values (whatever kinds were drawn: NaN, inf, zeros, subnormal, MAX, ...)
        b = a;
    }
    // whole-operand relations (a joint condition on ALL positions at once, which per-position draws never meet):
    // b = -a, b = a rotated by one position, b = a reversed, b = 2a, b = -a off by a few ulps / a small offset
    let mut related = "";
    if form == 0 && t.chance(48) {
        let r = t.below(6);
        let z = F::f(0.0);
        for i in 0..K {
            b[i] = match r {
                0 => z - a[i],
                1 => a[(i + 1) % K],
                2 => a[K - 1 - i],
                3 => a[i] + a[i],
                4 => (z - a[i]) * (F::f(1.0) + F::EPS),
                _ => z - a[i] + F::f(1e-4),
            };
        }
        related = ["b = -a", "b = a rotated", "b = a reversed", "b = 2a", "b = -a(1+eps)", "b = -a + 1e-4"][r];
        differing = (0..K).filter(|&i| !(a[i] == b[i])).count();
        cx.label("related-operands");
        cx.label(related);
    }
    sample!(cx, "{}<{}> eps={:?} max_relative={:?} max_ulps={} operands={} {} a={:?} b={:?}", C::NAME, F::NAME, eps, rel, ulps, ["two objects", "the same object", "bitwise copy"][form], related, a, b);
    let mut seen = Seen::default();
    let (ca, cb) = (C::mkf(&a), C::mkf(&b));
    let o = match form {
        1 => Ops { l: &ca, r: &ca, a: &a, b: &a, form: "the same object" },
        2 => Ops { l: &ca, r: &cb, a: &a, b: &b, form: "bitwise copy" },
        _ => Ops { l: &ca, r: &cb, a: &a, b: &b, form: "two objects" },
    };
    judge_ops(cx, &o, eps, rel, ulps, &mut seen)?;
    j_peq(cx, &o)?;
    cx.label(["two-objects", "same-object", "bitwise-copy"][form]);
    if form == 0 {
        cx.label(match differing { 0 => "0-differing", 1 => "1-differing", 2 => "2-differing", _ => "3+-differing" });
        if seen.t && differing > 0 { cx.label("differing-but-within-tolerance"); }
    } else if seen.f {
        cx.label("not-equal-to-itself");
    }
    if seen.f { cx.label("some-predicate-false"); }
    cx.set_nontrivial(if form == 0 { differing > 0 } else { seen.f });
    Ok(())
}

// ---------------------------------------------------------------------------------------------
// The same object on both sides

pub const SPECIALS: usize = 14;
fn special<F: ApproxS>(k: usize) -> (F, &'static str) {
    let z = F::f(0.0);
    match k {
        0 => (F::NAN, "lane-nan"),
        1 => (F::neg_nan(), "lane-nan"),
        2 => (F::INF, "lane-inf"),
        3 => (z - F::INF, "lane-inf"),
        4 => (z, "lane-zero"),
        5 => (F::f(-0.0), "lane-zero"),
        6 => (F::tiny(), "lane-subnormal"),
        7 => (z - F::tiny(), "lane-subnormal"),
        8 => (F::MINPOS, "lane-min-positive"),
        9 => (F::MAXV, "lane-max"),
        10 => (z - F::MAXV, "lane-max"),
        11 => (F::f(1.0), "lane-ordinary"),
        12 => (F::f(-1.5), "lane-ordinary"),
        _ => (F::f(1e-10), "lane-ordinary"),
    }
}
pub const ALIAS_BGS: u64 = 2;

/// idx = (p * SPECIALS + k) * 2 + bg: lane p holds special value k; the other lanes are distinct
/// ordinary values (bg 0) or hold the same special value (bg 1). `v.op(&v)`, `v.op(&copy_of_v)` and
/// the approx front-end macros, all tolerances (ordinary and unusual).
pub fn aliased<F: ApproxS, C: ApproxC<F, K>, const K: usize>(idx: u64, cx: &mut Cx) -> CaseResult {
    let bg = idx % ALIAS_BGS;
    let k = ((idx / ALIAS_BGS) % SPECIALS as u64) as usize;
    let p = (idx / ALIAS_BGS / SPECIALS as u64) as usize;
    let (x, label) = special::<F>(k);
    let mut a: [F; K] = if bg == 0 { base() } else { [x; K] };
    a[p] = x;
    // bg 1: one ordinary lane at position p+1 so the value still sits at an identifiable place
    if bg == 1 && K > 1 {
        a[(p + 1) % K] = F::f(1.75);
    }
    let ca = C::mkf(&a);
    let copy = ca;
    sample!(cx, "{}<{}> v.op(&v) and v.op(&copy), v={:?} (special value at position {}), all tolerances", C::NAME, F::NAME, a, p);
    cx.label(label);
    cx.label(if bg == 0 { "others-ordinary" } else { "others-special-too" });
    let mut seen = Seen::default();
    let mut seen_ordinary = Seen::default();
    for (o, form_label) in [
        (Ops { l: &ca, r: &ca, a: &a, b: &a, form: "the same object" }, "same-object"),
        (Ops { l: &ca, r: &copy, a: &a, b: &a, form: "bitwise copy" }, "bitwise-copy"),
        (Ops { l: &copy, r: &ca, a: &a, b: &a, form: "bitwise copy, swapped" }, "bitwise-copy"),
    ] {
        cx.label(form_label);
        for eps in eps_set::<F>() {
            j_abs(cx, &o, eps, &mut seen_ordinary)?;
            for rel in rel_set::<F>() {
                j_rel(cx, &o, eps, rel, &mut seen_ordinary)?;
            }
            for ulps in ULPS_SET {
                j_ulps(cx, &o, eps, ulps, &mut seen_ordinary)?;
            }
        }
        judge_ops(cx, &o, F::default_epsilon(), F::default_max_relative(), F::default_max_ulps(), &mut seen_ordinary)?;
        judge_wide(cx, &o, &mut seen)?;
        judge_macros(cx, &o)?;
        j_peq(cx, &o)?;
    }
    if seen_ordinary.f { cx.label("not-equal-to-itself(ordinary-tolerances)"); }
    if seen.f { cx.label("not-equal-to-itself(unusual-tolerance)"); }
    if seen.t || seen_ordinary.t { cx.label("equal-to-itself"); }
    // an identity early-out (`ptr::eq` / bitwise compare) shows iff some predicate is false on (v, v)
    cx.set_nontrivial(seen.f || seen_ordinary.f);
    Ok(())
}

macro_rules! tables {
    ($f:ident, $F:ty, $Fn:ty) => {{
        let mut v: Vec<(usize, $Fn)> = tables_noq!($f, $F, $Fn);
        v.push((4, $f::<$F, Quaternion<$F>, 4> as $Fn));
        v
    }};
}
macro_rules! tables_noq {
    ($f:ident, $F:ty, $Fn:ty) => {{
        let mut v: Vec<(usize, $Fn)> = vec_table!($f, $F, $Fn).to_vec();
        v.push((4, $f::<$F, rm::Mat2<$F>, 4> as $Fn));
        v.push((9, $f::<$F, rm::Mat3<$F>, 9> as $Fn));
        v.push((16, $f::<$F, rm::Mat4<$F>, 16> as $Fn));
        v.push((4, $f::<$F, cm::Mat2<$F>, 4> as $Fn));
        v.push((9, $f::<$F, cm::Mat3<$F>, 9> as $Fn));
        v.push((16, $f::<$F, cm::Mat4<$F>, 16> as $Fn));
        v
    }};
}

/// 13 vector types (146 positions), 6 matrices (58 positions), quaternion (4).
pub const POSITIONS: u64 = 146 + 58 + 4;
pub const ONE_LANE_TOTAL: u64 = POSITIONS * KINDS as u64 * 2;
pub const ALIASED_TOTAL: u64 = POSITIONS * SPECIALS as u64 * ALIAS_BGS;

pub fn one_lane_all<F: ApproxS>(idx: u64, cx: &mut Cx) -> CaseResult {
    let tab: Vec<(u64, IdxFn)> = tables!(one_lane, F, IdxFn).iter().map(|(n, f)| (*n as u64 * KINDS as u64 * 2, *f)).collect();
    dispatch(idx, &tab, cx)
}
pub fn aliased_all<F: ApproxS>(idx: u64, cx: &mut Cx) -> CaseResult {
    let tab: Vec<(u64, IdxFn)> = tables!(aliased, F, IdxFn).iter().map(|(n, f)| (*n as u64 * SPECIALS as u64 * ALIAS_BGS, *f)).collect();
    dispatch(idx, &tab, cx)
}
pub fn mixed_all<F: ApproxS>(t: &mut Tape, cx: &mut Cx) -> CaseResult {
    let tab = tables!(mixed, F, TapeFn);
    let k = t.below(tab.len());
    (tab[k].1)(t, cx)
}

// ---------------------------------------------------------------------------------------------
// AbsDiffEq of integer containers (approx implements it for the primitive integers; Relative / Ulps are float-only)

pub trait AbsI: Sc + AbsDiffEq<Epsilon = Self> {
    /// (x, y) such that neither x - y nor its absolute value overflows (approx's signed impl computes `abs(x - y)`)
    fn pairs() -> Vec<(Self, Self)>;
    fn epsilons() -> Vec<Self>;
    fn benign(i: usize) -> Self;
    /// a whole-operand relation that keeps `x - y` in range for benign x: negation (signed), complement to 200 (unsigned)
    fn related(self) -> Self;
    /// `int_abs` for Quaternion<Self>, if Quaternion<Self> implements AbsDiffEq at all (probed per concrete type, so
    /// that the harness still builds, and still judges every other container, when an impl gains a bound)
    fn quat_fn() -> Option<IdxFn>;
}
pub struct QProbe<T>(pub std::marker::PhantomData<T>);
pub trait QFallback { fn get(&self) -> Option<IdxFn> { None } }
impl<T> QFallback for QProbe<T> {}
impl<T: AbsI> QProbe<T> where Quaternion<T>: AbsC<T, 4> {
    pub fn get(&self) -> Option<IdxFn> { Some(int_abs::<T, Quaternion<T>, 4> as IdxFn) }
}
macro_rules! absi_signed { ($($t:ident)+) => { $(impl AbsI for $t {
    fn pairs() -> Vec<(Self, Self)> {
        vec![(0, 0), (5, 5), (5, 6), (5, 7), (-3, 3), (50, -50), ($t::MAX, $t::MAX), ($t::MIN, $t::MIN), ($t::MAX, $t::MAX - 1), (0, $t::MAX), ($t::MIN, $t::MIN + 1), ($t::MIN, -1), ($t::MAX, 0), (-1, -1)]
    }
    fn epsilons() -> Vec<Self> { vec![0, 1, 2, 6, 200.min($t::MAX as i64) as $t, $t::MAX - 1, $t::MAX, -1, $t::MIN] }
    fn benign(i: usize) -> Self { (i as $t % 100) - 50 }
    fn related(self) -> Self { -self }
    fn quat_fn() -> Option<IdxFn> { QProbe::<$t>(std::marker::PhantomData).get() }
})+ } }
absi_signed!(i8 i32 i64);
macro_rules! absi_unsigned { ($($t:ident)+) => { $(impl AbsI for $t {
    fn pairs() -> Vec<(Self, Self)> {
        vec![(0, 0), (5, 5), (5, 6), (5, 7), (3, 9), (0, 200), ($t::MAX, $t::MAX), ($t::MAX, $t::MAX - 1), (0, $t::MAX), ($t::MAX, 1), (1, 0), ($t::MAX / 2, $t::MAX / 2 + 1), (7, 7), (0, 1)]
    }
    fn epsilons() -> Vec<Self> { vec![0, 1, 2, 6, 200, $t::MAX - 1, $t::MAX, $t::MAX / 2, 199] }
    fn benign(i: usize) -> Self { (i % 100) as $t }
    fn related(self) -> Self { 200 - self }
    fn quat_fn() -> Option<IdxFn> { QProbe::<$t>(std::marker::PhantomData).get() }
})+ } }
absi_unsigned!(u8 u32 u64);
pub const INT_PAIRS: usize = 14;

pub trait AbsC<T: AbsI, const K: usize>: Flat<T, K> + PartialEq + AbsDiffEq<Epsilon = T> {}
impl<T: AbsI, const K: usize, C> AbsC<T, K> for C where C: Flat<T, K> + PartialEq + AbsDiffEq<Epsilon = T> {}

/// idx = p * INT_PAIRS + pair: position p holds the pair (both orders), the other positions are equal;
/// when the pair is (x, x) the same-object and bitwise-copy forms are judged too. All epsilons (signed: negative too).
pub fn int_abs<T: AbsI, C: AbsC<T, K>, const K: usize>(idx: u64, cx: &mut Cx) -> CaseResult {
    let pairs = T::pairs();
    let (x, y) = pairs[(idx % INT_PAIRS as u64) as usize];
    let p = (idx / INT_PAIRS as u64) as usize;
    let mut a = [x; K];
    for i in 0..K { a[i] = T::benign(i); }
    let mut b = a;
    a[p] = x;
    b[p] = y;
    sample!(cx, "{}<{}> abs_diff_eq, position {}: a={:?} b={:?}, all epsilons", C::NAME, T::NAME, p, a, b);
    check!(cx, C::default_epsilon() == T::default_epsilon(), "{}<{}>::default_epsilon() = {:?}, scalar's is {:?}", C::NAME, T::NAME, C::default_epsilon(), T::default_epsilon());
    let (ca, cb) = (C::mkf(&a), C::mkf(&b));
    let copy = ca;
    let mut forms: Vec<(&C, &C, &[T; K], &[T; K], &'static str)> = vec![(&ca, &cb, &a, &b, "two objects"), (&cb, &ca, &b, &a, "two objects, swapped")];
    // whole-operand relations on benign values (a joint condition on all positions): n = related(all of a0), r = a0 reversed
    let mut a0 = a;
    for i in 0..K { a0[i] = T::benign(i + p); }
    let mut n = a0;
    let mut r = a0;
    for i in 0..K { n[i] = a0[i].related(); r[i] = a0[K - 1 - i]; }
    let (c0, cn, cr) = (C::mkf(&a0), C::mkf(&n), C::mkf(&r));
    forms.push((&c0, &cn, &a0, &n, "b = related(a) in every position"));
    forms.push((&cn, &c0, &n, &a0, "a = related(b) in every position"));
    forms.push((&c0, &cr, &a0, &r, "b = a reversed"));
    if x == y {
        forms.push((&ca, &ca, &a, &a, "the same object"));
        forms.push((&ca, &copy, &a, &a, "bitwise copy"));
        cx.label("same-object");
    } else {
        cx.label("one-position-differs");
    }
    let mut saw_false = false;
    for (l, r, la, rb, form) in forms {
        for eps in T::epsilons() {
            let want = (0..K).all(|i| T::abs_diff_eq(&la[i], &rb[i], eps));
            saw_false |= !want;
            check_eq!(cx, l.abs_diff_eq(r, eps), want, "{}<{}>::abs_diff_eq [{}] eps={:?} a={:?} b={:?}", C::NAME, T::NAME, form, eps, la, rb);
            check_eq!(cx, l.abs_diff_ne(r, eps), !want, "{}<{}>::abs_diff_ne [{}] eps={:?} a={:?} b={:?}", C::NAME, T::NAME, form, eps, la, rb);
        }
        check_eq!(cx, *l == *r, la == rb, "{}<{}>: `==` [{}] a={:?} b={:?}", C::NAME, T::NAME, form, la, rb);
        check_eq!(cx, *l != *r, la != rb, "{}<{}>: `!=` [{}] a={:?} b={:?}", C::NAME, T::NAME, form, la, rb);
    }
    if saw_false { cx.label("some-epsilon-decides-false"); }
    cx.set_nontrivial(saw_false);
    Ok(())
}
pub const INT_ABS_TOTAL: u64 = POSITIONS * INT_PAIRS as u64;
fn quat_impl_missing(_idx: u64, cx: &mut Cx) -> CaseResult {
    cx.label("Quaternion<T>-has-no-AbsDiffEq-for-this-T");
    Ok(())
}
pub fn int_abs_all<T: AbsI>(idx: u64, cx: &mut Cx) -> CaseResult {
    let mut t = tables_noq!(int_abs, T, IdxFn);
    t.push((4, T::quat_fn().unwrap_or(quat_impl_missing as IdxFn)));
    let tab: Vec<(u64, IdxFn)> = t.iter().map(|(n, f)| (*n as u64 * INT_PAIRS as u64, *f)).collect();
    dispatch(idx, &tab, cx)
}

// ---------------------------------------------------------------------------------------------
// A user element type whose three default tolerances are all different (for f32 / f64, default_epsilon and
// default_max_relative coincide, so a container that forwards the wrong constant is invisible there).

#[derive(Clone, Copy, Debug, PartialEq)]
pub struct Ap(pub f64);
pub const AP_EPS: f64 = 1e-9;
pub const AP_REL: f64 = 0.05;
pub const AP_ULPS: u32 = 7;
/// one "unit in the last place" of Ap
pub const AP_ULP: f64 = 0.001;
impl AbsDiffEq for Ap {
    type Epsilon = f64;
    fn default_epsilon() -> f64 { AP_EPS }
    fn abs_diff_eq(&self, o: &Self, eps: f64) -> bool { (self.0 - o.0).abs() <= eps }
}
impl RelativeEq for Ap {
    fn default_max_relative() -> f64 { AP_REL }
    fn relative_eq(&self, o: &Self, eps: f64, rel: f64) -> bool {
        let d = (self.0 - o.0).abs();
        d <= eps || d <= self.0.abs().max(o.0.abs()) * rel
    }
}
impl UlpsEq for Ap {
    fn default_max_ulps() -> u32 { AP_ULPS }
    fn ulps_eq(&self, o: &Self, eps: f64, ulps: u32) -> bool {
        let d = (self.0 - o.0).abs();
        d <= eps || d <= ulps as f64 * AP_ULP * 1.000001
    }
}

pub trait ApC<const K: usize>: Flat<Ap, K> + PartialEq + AbsDiffEq<Epsilon = f64> + RelativeEq + UlpsEq {}
impl<const K: usize, C> ApC<K> for C where C: Flat<Ap, K> + PartialEq + AbsDiffEq<Epsilon = f64> + RelativeEq + UlpsEq {}

/// idx = position p (K positions) + one extra case (all positions perturbed)
pub fn custom<T, C: ApC<K>, const K: usize>(idx: u64, cx: &mut Cx) -> CaseResult {
    let _ = std::marker::PhantomData::<T>;
    let p = idx as usize % K;
    let a: [Ap; K] = std::array::from_fn(|i| Ap(2.0 + 0.5 * i as f64));
    sample!(cx, "{}<Ap> defaults (epsilon {}, max_relative {}, max_ulps {}), position {}", C::NAME, AP_EPS, AP_REL, AP_ULPS, p);
    cx.nontrivial();
    check_eq!(cx, C::default_epsilon(), AP_EPS, "{}<Ap>::default_epsilon()", C::NAME);
    check_eq!(cx, C::default_max_relative(), AP_REL, "{}<Ap>::default_max_relative()", C::NAME);
    check_eq!(cx, C::default_max_ulps(), AP_ULPS, "{}<Ap>::default_max_ulps()", C::NAME);
    let ca = C::mkf(&a);
    // (what, b, abs, rel, ulps): the per-element verdicts with the ELEMENT's default tolerances
    let mut every_1pct = a;
    for x in every_1pct.iter_mut() { x.0 *= 1.01; }
    let mut one_10pct = a;
    one_10pct[p].0 *= 1.10;
    let mut one_1pct = a;
    one_1pct[p].0 *= 1.01;
    let mut one_5ulps = a;
    one_5ulps[p].0 += 5.0 * AP_ULP;
    let mut one_9ulps = a;
    one_9ulps[p].0 += 9.0 * AP_ULP;
    let mut one_tiny = a;
    one_tiny[p].0 += 0.5e-9;
    for (what, b) in [("every position 1% off", every_1pct), ("one position 10% off", one_10pct), ("one position 1% off", one_1pct), ("one position 5 'ulps' off", one_5ulps), ("one position 9 'ulps' off", one_9ulps), ("one position 0.5e-9 off", one_tiny), ("equal", a)] {
        let cb = C::mkf(&b);
        let w_abs = (0..K).all(|i| Ap::abs_diff_eq(&a[i], &b[i], AP_EPS));
        let w_rel = (0..K).all(|i| Ap::relative_eq(&a[i], &b[i], AP_EPS, AP_REL));
        let w_ulps = (0..K).all(|i| Ap::ulps_eq(&a[i], &b[i], AP_EPS, AP_ULPS));
        cx.label(what);
        check_eq!(cx, approx::abs_diff_eq!(ca, cb), w_abs, "{}<Ap>: abs_diff_eq!(a, b) with default tolerances, {}", C::NAME, what);
        check_eq!(cx, approx::relative_eq!(ca, cb), w_rel, "{}<Ap>: relative_eq!(a, b) with default tolerances (element: epsilon {}, max_relative {}), {}", C::NAME, AP_EPS, AP_REL, what);
        check_eq!(cx, approx::ulps_eq!(ca, cb), w_ulps, "{}<Ap>: ulps_eq!(a, b) with default tolerances, {}", C::NAME, what);
        check_eq!(cx, approx::abs_diff_ne!(ca, cb), !w_abs, "{}<Ap>: abs_diff_ne!(a, b), {}", C::NAME, what);
        check_eq!(cx, approx::relative_ne!(ca, cb), !w_rel, "{}<Ap>: relative_ne!(a, b), {}", C::NAME, what);
        check_eq!(cx, approx::ulps_ne!(ca, cb), !w_ulps, "{}<Ap>: ulps_ne!(a, b), {}", C::NAME, what);
        check_eq!(cx, approx::Relative::default().eq(&ca, &cb), w_rel, "{}<Ap>: Relative::default().eq, {}", C::NAME, what);
        check_eq!(cx, approx::Ulps::default().eq(&ca, &cb), w_ulps, "{}<Ap>: Ulps::default().eq, {}", C::NAME, what);
        check_eq!(cx, approx::AbsDiff::default().eq(&ca, &cb), w_abs, "{}<Ap>: AbsDiff::default().eq, {}", C::NAME, what);
        // explicit tolerances, each one deciding alone
        check_eq!(cx, ca.relative_eq(&cb, 0.0, 0.02), (0..K).all(|i| Ap::relative_eq(&a[i], &b[i], 0.0, 0.02)), "{}<Ap>::relative_eq(b, 0, 0.02), {}", C::NAME, what);
        check_eq!(cx, ca.ulps_eq(&cb, 0.0, 6), (0..K).all(|i| Ap::ulps_eq(&a[i], &b[i], 0.0, 6)), "{}<Ap>::ulps_eq(b, 0, 6), {}", C::NAME, what);
    }
    Ok(())
}
pub fn custom_all(idx: u64, cx: &mut Cx) -> CaseResult {
    let tab: Vec<(u64, IdxFn)> = tables!(custom, Ap, IdxFn).iter().map(|(n, f)| (*n as u64, *f)).collect();
    dispatch(idx, &tab, cx)
}
