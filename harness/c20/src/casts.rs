//! Element casts: `as_` (the `as` operator per element), `numcast` (NumCast per element, None iff
//! some element is None) on vectors, matrices and shapes; the az family on vectors (per lane the
//! scalar az trait; None / overflow flag / panic of the whole iff of some lane).

use crate::io::*;
use num_traits::{AsPrimitive, NumCast};
use std::sync::OnceLock;
use vek::az::{Cast, CheckedCast, OverflowingCast, SaturatingCast, UnwrappedCast, WrappingCast};
use vek::geom::repr_c::{Aabb, Aabr, LineSegment2, LineSegment3, Rect, Rect3};
use vek::mat::repr_c::column_major as cm;
use vek::mat::repr_c::row_major as rm;
use vek::vec::repr_c::*;
use vkit::vk::MatN;
use vkit::*;

/// Source scalar: a pool of boundary values and distinct benign values that fit every target type.
pub trait CSrc: Sc + NumCast {
    const FLOAT: bool;
    fn pool() -> &'static [Self];
    fn benign(i: usize) -> Self;
    fn class(self) -> &'static str;
}

fn int_master() -> Vec<i128> {
    let mut v: Vec<i128> = vec![0, 1, -1, 2, -2, 100, -100, 200, -200];
    for k in [7u32, 8, 15, 16, 24, 31, 32, 53, 63, 64] {
        let p = 1i128 << k;
        v.extend_from_slice(&[p - 2, p - 1, p, p + 1, -p - 1, -p, -p + 1, -p + 2]);
    }
    v
}

macro_rules! csrc_int {
    ($($t:ident)+) => { $(
        impl CSrc for $t {
            const FLOAT: bool = false;
            fn pool() -> &'static [Self] {
                static P: OnceLock<Vec<$t>> = OnceLock::new();
                P.get_or_init(|| {
                    let mut out = Vec::new();
                    for x in int_master() {
                        if x >= $t::MIN as i128 && x <= $t::MAX as i128 && !out.contains(&(x as $t)) {
                            out.push(x as $t);
                        }
                    }
                    out
                })
            }
            fn benign(i: usize) -> Self { (i as $t) + 1 }
            fn class(self) -> &'static str {
                if self == $t::MAX { "src-int-max" } else if self == $t::MIN { "src-int-min" } else { "src-int" }
            }
        }
    )+ };
}
csrc_int!(i8 i16 i32 i64 u8 u16 u32 u64);

macro_rules! csrc_float {
    ($($t:ident)+) => { $(
        impl CSrc for $t {
            const FLOAT: bool = true;
            fn pool() -> &'static [Self] {
                static P: OnceLock<Vec<$t>> = OnceLock::new();
                P.get_or_init(|| {
                    let up = |x: $t| <$t>::from_bits(x.to_bits() + 1); // positive finite x
                    let down = |x: $t| <$t>::from_bits(x.to_bits() - 1);
                    let sub = <$t>::from_bits(1); // smallest subnormal
                    let mut v: Vec<$t> = vec![0.0, sub, <$t>::MIN_POSITIVE, down(<$t>::MIN_POSITIVE), <$t>::INFINITY, 0.5, 0.9, 0.99999, 1.0, 1.5, 2.5, 100.7,
                        <$t>::MAX, down(<$t>::MAX), <$t>::EPSILON, 1.0e30,
                        f32::MAX as $t, (f32::MAX as f64 * 2.0) as $t, (f32::MAX as f64 * 1.0000001) as $t, 3.4028235677973366e38f64 as $t, 16777217.0f64 as $t, 9007199254740993i64 as $t];
                    for k in [7i32, 8, 15, 16, 24, 31, 32, 53, 63, 64] {
                        let p = (2.0 as $t).powi(k);
                        v.extend_from_slice(&[p, p - 1.0, p - 0.5, p - 0.1, p + 0.5, p + 0.9, p + 1.0, down(p), up(p), down(down(p))]);
                    }
                    let mut out: Vec<$t> = Vec::new();
                    for x in v {
                        for y in [x, -x] {
                            if !out.iter().any(|o| o.to_bits() == y.to_bits()) { out.push(y); }
                        }
                    }
                    out.push(<$t>::NAN);
                    out.push(-<$t>::NAN);
                    out
                })
            }
            fn benign(i: usize) -> Self { (i as $t) + 1.5 }
            fn class(self) -> &'static str {
                if self.is_nan() { "src-nan" } else if self.is_infinite() { "src-inf" } else if self == 0.0 { "src-zero" }
                else if self.abs() < <$t>::MIN_POSITIVE { "src-subnormal" } else { "src-finite" }
            }
        }
    )+ };
}
csrc_float!(f32 f64);

/// A (source, target) scalar pair: everything vek's casts need, plus the `as` operator itself as the rule for `as_`.
pub trait CastPair<D: Sc + NumCast>: CSrc + AsPrimitive<D> + Cast<D> + CheckedCast<D> + UnwrappedCast<D> {
    fn as_rule(self) -> D;
}
/// Integer targets additionally have the saturating / wrapping / overflowing az casts (az has none to floats).
pub trait CastPairInt<D: Sc + NumCast>: CastPair<D> + SaturatingCast<D> + WrappingCast<D> + OverflowingCast<D> {}

macro_rules! pair_list_int {
    ($cb:ident ! ($($pre:tt)*)) => {
        $cb!{ $($pre)* ;
            f32 i8, f32 u8, f32 i32, f32 u64, f64 i8, f64 i16, f64 u32, f64 i64, f64 u64,
            i64 i8, i64 u8, i32 u16, u64 i64, i8 u8, u8 i8, i16 u64, u32 i32, i64 i64
        }
    };
}
macro_rules! pair_list_flt {
    ($cb:ident ! ($($pre:tt)*)) => {
        $cb!{ $($pre)* ; f64 f32, f32 f64, i64 f32, u64 f64, i32 f32, u8 f32 }
    };
}
macro_rules! impl_pairs {
    (; $($s:ident $d:ident),+) => { $( impl CastPair<$d> for $s { #[inline] fn as_rule(self) -> $d { self as $d } } )+ };
}
macro_rules! impl_pairs_int {
    (; $($s:ident $d:ident),+) => { $( impl CastPairInt<$d> for $s {} )+ };
}
pair_list_int!(impl_pairs!());
pair_list_int!(impl_pairs_int!());
pair_list_flt!(impl_pairs!());
macro_rules! fn_table {
    ($one:ident ; $($s:ident $d:ident),+) => { vec![$($one::<$s, $d> as TapeFn),+] };
}
/// All 24 pairs with one handler.
macro_rules! pair_list {
    (fn_table!($one:ident)) => {{
        let mut v = pair_list_int!(fn_table!($one));
        v.extend(pair_list_flt!(fn_table!($one)));
        v
    }};
}

/// Fill `a` with benign values and put pool values into 1..=2 lanes; returns the hot lanes.
fn fill<S: CSrc, const K: usize>(t: &mut Tape, cx: &mut Cx, a: &mut [S; K]) -> Vec<usize> {
    fill_off(t, cx, a, 0)
}
fn fill_off<S: CSrc, const K: usize>(t: &mut Tape, cx: &mut Cx, a: &mut [S; K], off: usize) -> Vec<usize> {
    for i in 0..K {
        a[i] = S::benign(i + off);
    }
    let pool = S::pool();
    let hot = 1 + (t.chance(64) as usize);
    let mut lanes = Vec::new();
    for _ in 0..hot {
        let p = t.below(K);
        a[p] = pool[t.below16(pool.len())];
        cx.label(a[p].class());
        lanes.push(p);
    }
    lanes
}

/// Per-lane results of a scalar cast that may panic: Err(lane) if some lane panics.
fn lanes_catch<S: Copy, R: Copy, const K: usize>(a: &[S; K], f: impl Fn(S) -> R) -> Result<[R; K], usize> {
    let mut out: [Option<R>; K] = [None; K];
    let mut bad = None;
    for i in 0..K {
        match vkit::catch(|| f(a[i])) {
            Ok(r) => out[i] = Some(r),
            Err(_) => bad = Some(i),
        }
    }
    match bad {
        Some(i) => Err(i),
        None => Ok(out.map(|x| x.unwrap())),
    }
}

/// Oracle for `numcast`: per element NumCast, None iff some element is None.
fn numcast_rule<S: CSrc, D: Sc + NumCast, const K: usize>(a: &[S; K]) -> Result<[D; K], usize> {
    let mut out: [Option<D>; K] = [None; K];
    let mut bad = None;
    for i in 0..K {
        match <D as NumCast>::from(a[i]) {
            Some(r) => out[i] = Some(r),
            None => bad = Some(i),
        }
    }
    match bad {
        Some(i) => Err(i),
        None => Ok(out.map(|x| x.unwrap())),
    }
}

macro_rules! cast_vec_fn {
    ($fname:ident, $V:ident, $n:expr) => {
        pub fn $fname(t: &mut Tape, cx: &mut Cx) -> CaseResult {
            const N: usize = $n;
            const VN: &str = stringify!($V);
            macro_rules! panicky {
                ($cx:ident, $a:ident, $name:literal, $call:expr, $scalar:expr, $label:literal) => {{
                    let want = lanes_catch(&$a, $scalar);
                    let got = vkit::catch(|| $call);
                    match (got, want) {
                        (Ok(g), Ok(w)) => {
                            let g: [D; N] = g.rd();
                            check!($cx, same_arr(&g, &w), "{}<{}>::{}::<{}>({:?}) = {:?}, want {:?}", VN, S::NAME, $name, D::NAME, $a, g, w);
                        }
                        (Err(_), Err(_)) => {
                            $cx.count();
                            $cx.label($label);
                        }
                        (Ok(g), Err(i)) => fail!("{}<{}>::{}::<{}>({:?}) returned {:?} but the scalar cast of lane {} panics", VN, S::NAME, $name, D::NAME, $a, g, i),
                        (Err(m), Ok(w)) => fail!("{}<{}>::{}::<{}>({:?}) panicked ({}) but no lane's scalar cast does: {:?}", VN, S::NAME, $name, D::NAME, $a, m, w),
                    }
                }};
            }
            /// as_, numcast, az, checked_as, unwrapped_as; returns the non-triviality of the case
            fn base<S: CastPair<D>, D: Sc + NumCast>(cx: &mut Cx, a: &[S; N]) -> Result<bool, Fail> {
                let a = *a;
                let v: $V<S> = VIo::mk(&a);
                let mut nontrivial = false;
                // as_: the `as` operator per lane
                {
                    let want: [D; N] = a.map(|x| x.as_rule());
                    let got: [D; N] = v.as_::<D>().rd();
                    check!(cx, same_arr(&got, &want), "{}<{}>::as_::<{}>({:?}) = {:?}, want {:?}", VN, S::NAME, D::NAME, a, got, want);
                }
                // numcast
                match (v.numcast::<D>(), numcast_rule::<S, D, N>(&a)) {
                    (Some(g), Ok(w)) => {
                        cx.label("numcast-some");
                        let g = g.rd();
                        check!(cx, same_arr(&g, &w), "{}<{}>::numcast::<{}>({:?}) = Some({:?}), want Some({:?})", VN, S::NAME, D::NAME, a, g, w);
                    }
                    (None, Err(_)) => {
                        cx.count();
                        cx.label("numcast-none");
                        nontrivial = true;
                    }
                    (Some(g), Err(i)) => fail!("{}<{}>::numcast::<{}>({:?}) = Some({:?}) but NumCast of lane {} is None", VN, S::NAME, D::NAME, a, g, i),
                    (None, Ok(w)) => fail!("{}<{}>::numcast::<{}>({:?}) = None but every lane casts: {:?}", VN, S::NAME, D::NAME, a, w),
                }
                panicky!(cx, a, "az", v.az::<D>(), |x: S| <S as Cast<D>>::cast(x), "az-panic");
                panicky!(cx, a, "unwrapped_as", v.unwrapped_as::<D>(), |x: S| <S as UnwrappedCast<D>>::unwrapped_cast(x), "unwrapped_as-panic");
                // the az trait impls themselves (the inherent methods forward to them today)
                panicky!(cx, a, "Cast::cast", <$V<S> as Cast<$V<D>>>::cast(v), |x: S| <S as Cast<D>>::cast(x), "az-panic");
                panicky!(cx, a, "UnwrappedCast::unwrapped_cast", <$V<S> as UnwrappedCast<$V<D>>>::unwrapped_cast(v), |x: S| <S as UnwrappedCast<D>>::unwrapped_cast(x), "unwrapped_as-panic");
                // checked_as, inherent and trait form
                for trait_form in [false, true] {
                    let mut want: [Option<D>; N] = [None; N];
                    let mut none_at = None;
                    for i in 0..N {
                        want[i] = <S as CheckedCast<D>>::checked_cast(a[i]);
                        if want[i].is_none() { none_at = Some(i); }
                    }
                    let got = if trait_form { <$V<S> as CheckedCast<$V<D>>>::checked_cast(v) } else { v.checked_as::<D>() };
                    match (got, none_at) {
                        (Some(g), None) => {
                            cx.label("checked_as-some");
                            let g = g.rd();
                            let w = want.map(|x| x.unwrap());
                            check!(cx, same_arr(&g, &w), "{}<{}>::checked_as::<{}>({:?}) = Some({:?}), want Some({:?})", VN, S::NAME, D::NAME, a, g, w);
                        }
                        (None, Some(_)) => {
                            cx.count();
                            cx.label("checked_as-none");
                            nontrivial = true;
                        }
                        (Some(g), Some(i)) => fail!("{}<{}>::checked_as::<{}>({:?}) = Some({:?}) but the scalar checked cast of lane {} is None", VN, S::NAME, D::NAME, a, g, i),
                        (None, None) => fail!("{}<{}>::checked_as::<{}>({:?}) = None but every lane casts: {:?}", VN, S::NAME, D::NAME, a, want),
                    }
                }
                Ok(nontrivial)
            }
            /// saturating_as, wrapping_as, overflowing_as (integer targets)
            fn ints<S: CastPairInt<D>, D: Sc + NumCast>(cx: &mut Cx, a: &[S; N]) -> CaseResult {
                let a = *a;
                let v: $V<S> = VIo::mk(&a);
                panicky!(cx, a, "saturating_as", v.saturating_as::<D>(), |x: S| <S as SaturatingCast<D>>::saturating_cast(x), "saturating_as-panic");
                panicky!(cx, a, "wrapping_as", v.wrapping_as::<D>(), |x: S| <S as WrappingCast<D>>::wrapping_cast(x), "wrapping_as-panic");
                // the trait form is the same function
                panicky!(cx, a, "SaturatingCast::saturating_cast", <$V<S> as SaturatingCast<$V<D>>>::saturating_cast(v), |x: S| <S as SaturatingCast<D>>::saturating_cast(x), "saturating_as-panic");
                panicky!(cx, a, "WrappingCast::wrapping_cast", <$V<S> as WrappingCast<$V<D>>>::wrapping_cast(v), |x: S| <S as WrappingCast<D>>::wrapping_cast(x), "wrapping_as-panic");
                // overflowing_as, inherent and trait form
                for trait_form in [false, true] {
                let want = lanes_catch(&a, |x: S| <S as OverflowingCast<D>>::overflowing_cast(x));
                let got = vkit::catch(|| if trait_form { <$V<S> as OverflowingCast<$V<D>>>::overflowing_cast(v) } else { v.overflowing_as::<D>() });
                match (got, want) {
                    (Ok((g, flag)), Ok(w)) => {
                        let g = g.rd();
                        let wl: [D; N] = w.map(|x| x.0);
                        let any = w.iter().any(|x| x.1);
                        cx.label(if any { "overflowing_as-flag-set" } else { "overflowing_as-flag-clear" });
                        check!(cx, same_arr(&g, &wl), "{}<{}>::overflowing_as::<{}>({:?}) lanes = {:?}, want {:?}", VN, S::NAME, D::NAME, a, g, wl);
                        check_eq!(cx, flag, any, "{}<{}>::overflowing_as::<{}>({:?}) flag (lane flags {:?})", VN, S::NAME, D::NAME, a, w.map(|x| x.1));
                    }
                    (Err(_), Err(_)) => {
                        cx.count();
                        cx.label("overflowing_as-panic");
                    }
                    (Ok(g), Err(i)) => fail!("{}<{}>::overflowing_as::<{}>({:?}) returned {:?} but the scalar cast of lane {} panics", VN, S::NAME, D::NAME, a, g, i),
                    (Err(m), Ok(w)) => fail!("{}<{}>::overflowing_as::<{}>({:?}) panicked ({}) but no lane does: {:?}", VN, S::NAME, D::NAME, a, m, w),
                }
                }
                Ok(())
            }
            fn one_f<S: CastPair<D>, D: Sc + NumCast>(t: &mut Tape, cx: &mut Cx) -> CaseResult {
                let mut a = [S::benign(0); N];
                let hot = fill(t, cx, &mut a);
                sample!(cx, "{}<{}> -> {} hot lanes {:?}: {:?}", VN, S::NAME, D::NAME, hot, a);
                let nt = base::<S, D>(cx, &a)?;
                cx.set_nontrivial(nt);
                Ok(())
            }
            fn one_i<S: CastPairInt<D>, D: Sc + NumCast>(t: &mut Tape, cx: &mut Cx) -> CaseResult {
                let mut a = [S::benign(0); N];
                let hot = fill(t, cx, &mut a);
                sample!(cx, "{}<{}> -> {} hot lanes {:?}: {:?}", VN, S::NAME, D::NAME, hot, a);
                let nt = base::<S, D>(cx, &a)?;
                ints::<S, D>(cx, &a)?;
                cx.set_nontrivial(nt);
                Ok(())
            }
            let mut tab = pair_list_int!(fn_table!(one_i));
            tab.extend(pair_list_flt!(fn_table!(one_f)));
            let k = t.below(tab.len());
            (tab[k])(t, cx)
        }
    };
}
cast_vec_fn!(cast_vec2, Vec2, 2);
cast_vec_fn!(cast_vec3, Vec3, 3);
cast_vec_fn!(cast_vec4, Vec4, 4);
cast_vec_fn!(cast_vec8, Vec8, 8);
cast_vec_fn!(cast_vec16, Vec16, 16);
cast_vec_fn!(cast_vec32, Vec32, 32);
cast_vec_fn!(cast_vec64, Vec64, 64);
cast_vec_fn!(cast_extent2, Extent2, 2);
cast_vec_fn!(cast_extent3, Extent3, 3);
cast_vec_fn!(cast_rgb, Rgb, 3);
cast_vec_fn!(cast_rgba, Rgba, 4);
cast_vec_fn!(cast_uv, Uv, 2);
cast_vec_fn!(cast_uvw, Uvw, 3);

/// Vector casts: the tape picks one of the 13 vector types.
pub fn cast_vectors(t: &mut Tape, cx: &mut Cx) -> CaseResult {
    let tab: [TapeFn; 13] = [cast_vec2, cast_vec3, cast_vec4, cast_vec8, cast_vec16, cast_vec32, cast_vec64, cast_extent2, cast_extent3, cast_rgb, cast_rgba, cast_uv, cast_uvw];
    let k = t.below(tab.len());
    (tab[k])(t, cx)
}

macro_rules! cast_mat_fn {
    ($fname:ident, $lay:ident, $M:ident, $n:expr, $k:expr) => {
        pub fn $fname(t: &mut Tape, cx: &mut Cx) -> CaseResult {
            fn one<S: CastPair<D>, D: Sc + NumCast>(t: &mut Tape, cx: &mut Cx) -> CaseResult {
                const N: usize = $n;
                const MN: &str = concat!(stringify!($lay), "::", stringify!($M));
                let mut flat = [S::benign(0); $k];
                let hot = fill(t, cx, &mut flat);
                let mut a = [[S::benign(0); N]; N];
                for i in 0..N { for j in 0..N { a[i][j] = flat[i * N + j]; } }
                let m: $lay::$M<S> = MatN::from_arr(&a);
                sample!(cx, "{}<{}> -> {} hot elements {:?}: {:?}", MN, S::NAME, D::NAME, hot.iter().map(|p| (p / N, p % N)).collect::<Vec<_>>(), a);
                let want: [[D; N]; N] = a.map(|r| r.map(|x| x.as_rule()));
                let got: [[D; N]; N] = m.as_::<D>().to_arr();
                check!(cx, (0..N).all(|i| same_arr(&got[i], &want[i])), "{}<{}>::as_::<{}>({:?}) = {:?}, want {:?}", MN, S::NAME, D::NAME, a, got, want);
                match (m.numcast::<D>(), numcast_rule::<S, D, $k>(&flat)) {
                    (Some(g), Ok(w)) => {
                        cx.label("numcast-some");
                        let g = g.to_arr();
                        check!(cx, (0..N).all(|i| (0..N).all(|j| g[i][j].same(w[i * N + j]))), "{}<{}>::numcast::<{}>({:?}) = Some({:?}), want elements {:?}", MN, S::NAME, D::NAME, a, g, w);
                        cx.set_nontrivial(false);
                    }
                    (None, Err(_)) => {
                        cx.count();
                        cx.label("numcast-none");
                        cx.set_nontrivial(true);
                    }
                    (Some(g), Err(p)) => fail!("{}<{}>::numcast::<{}>({:?}) = Some({:?}) but NumCast of element ({},{}) is None", MN, S::NAME, D::NAME, a, g, p / N, p % N),
                    (None, Ok(w)) => fail!("{}<{}>::numcast::<{}>({:?}) = None but every element casts: {:?}", MN, S::NAME, D::NAME, a, w),
                }
                Ok(())
            }
            let tab = pair_list!(fn_table!(one));
            let k = t.below(tab.len());
            (tab[k])(t, cx)
        }
    };
}
cast_mat_fn!(cast_rm2, rm, Mat2, 2, 4);
cast_mat_fn!(cast_rm3, rm, Mat3, 3, 9);
cast_mat_fn!(cast_rm4, rm, Mat4, 4, 16);
cast_mat_fn!(cast_cm2, cm, Mat2, 2, 4);
cast_mat_fn!(cast_cm3, cm, Mat3, 3, 9);
cast_mat_fn!(cast_cm4, cm, Mat4, 4, 16);

pub fn cast_matrices(t: &mut Tape, cx: &mut Cx) -> CaseResult {
    let tab: [TapeFn; 6] = [cast_rm2, cast_rm3, cast_rm4, cast_cm2, cast_cm3, cast_cm4];
    let k = t.below(tab.len());
    (tab[k])(t, cx)
}

/// Shapes with one element type: LineSegment2/3, Aabr, Aabb (`as_` only; they have no numcast).
pub fn cast_shapes(t: &mut Tape, cx: &mut Cx) -> CaseResult {
    fn one<S: CastPair<D>, D: Sc + NumCast>(t: &mut Tape, cx: &mut Cx) -> CaseResult {
        macro_rules! shape {
            ($Sh:ident, $k:expr) => {{
                let mut a = [S::benign(0); $k];
                let hot = fill(t, cx, &mut a);
                let sh: $Sh<S> = Flat::<S, $k>::mkf(&a);
                sample!(cx, "{}<{}> -> {} hot {:?}: {:?}", stringify!($Sh), S::NAME, D::NAME, hot, sh);
                let want: [D; $k] = a.map(|x| x.as_rule());
                let got: [D; $k] = sh.as_::<D>().rdf();
                check!(cx, same_arr(&got, &want), "{}<{}>::as_::<{}>({:?}) = {:?}, want fields {:?}", stringify!($Sh), S::NAME, D::NAME, sh, got, want);
                cx.set_nontrivial((0..$k).any(|i| <D as NumCast>::from(a[i]).is_none()));
            }};
        }
        match t.below(4) {
            0 => shape!(LineSegment2, 4),
            1 => shape!(LineSegment3, 6),
            2 => shape!(Aabr, 4),
            _ => shape!(Aabb, 6),
        }
        Ok(())
    }
    let tab = pair_list!(fn_table!(one));
    let k = t.below(tab.len());
    (tab[k])(t, cx)
}

/// Rect / Rect3: position and extent element types are cast independently.
pub fn cast_rects(t: &mut Tape, cx: &mut Cx) -> CaseResult {
    fn one<P: CastPair<DP>, DP: Sc + NumCast, E: CastPair<DE>, DE: Sc + NumCast>(t: &mut Tape, cx: &mut Cx) -> CaseResult {
        if t.bool() {
            let mut p = [P::benign(0); 2];
            let mut e = [E::benign(0); 2];
            // distinct benign values across position and extent
            fill(t, cx, &mut p);
            fill_off(t, cx, &mut e, 2);
            let r: Rect<P, E> = mk_rect(&p, &e);
            sample!(cx, "Rect<{},{}> -> <{},{}>: {:?}", P::NAME, E::NAME, DP::NAME, DE::NAME, r);
            let (gp, ge) = rd_rect(&r.as_::<DP, DE>());
            let (wp, we) = (p.map(|x| x.as_rule()), e.map(|x| x.as_rule()));
            check!(cx, same_arr(&gp, &wp) && same_arr(&ge, &we), "Rect<{},{}>::as_::<{},{}>({:?}) = x,y {:?} w,h {:?}; want x,y {:?} w,h {:?}", P::NAME, E::NAME, DP::NAME, DE::NAME, r, gp, ge, wp, we);
            cx.set_nontrivial(p.iter().any(|x| <DP as NumCast>::from(*x).is_none()) || e.iter().any(|x| <DE as NumCast>::from(*x).is_none()));
        } else {
            let mut p = [P::benign(0); 3];
            let mut e = [E::benign(0); 3];
            fill(t, cx, &mut p);
            fill_off(t, cx, &mut e, 3);
            let r: Rect3<P, E> = mk_rect3(&p, &e);
            sample!(cx, "Rect3<{},{}> -> <{},{}>: {:?}", P::NAME, E::NAME, DP::NAME, DE::NAME, r);
            let (gp, ge) = rd_rect3(&r.as_::<DP, DE>());
            let (wp, we) = (p.map(|x| x.as_rule()), e.map(|x| x.as_rule()));
            check!(cx, same_arr(&gp, &wp) && same_arr(&ge, &we), "Rect3<{},{}>::as_::<{},{}>({:?}) = x,y,z {:?} w,h,d {:?}; want x,y,z {:?} w,h,d {:?}", P::NAME, E::NAME, DP::NAME, DE::NAME, r, gp, ge, wp, we);
            cx.set_nontrivial(p.iter().any(|x| <DP as NumCast>::from(*x).is_none()) || e.iter().any(|x| <DE as NumCast>::from(*x).is_none()));
        }
        Ok(())
    }
    let tab: [TapeFn; 8] = [
        one::<f32, i8, f32, u8>,
        one::<f64, i64, f64, u32>,
        one::<f32, i32, i64, u8>,
        one::<i64, i8, f64, f32>,
        one::<f64, f32, u64, i64>,
        one::<i32, u16, f32, u64>,
        one::<f64, i16, f64, i16>,
        one::<u8, i8, i16, u64>,
    ];
    let k = t.below(tab.len());
    (tab[k])(t, cx)
}
