//! mint conversions (field-exact, row/column meaning preserved) and bytemuck (`zeroed()` is zero,
//! the bytes of a Pod value list its fields in declaration order).

use crate::io::*;
use crate::vec_table;
use num_traits::Zero;
use vek::bytemuck::{self, Pod, Zeroable};
use vek::mat::repr_c::column_major as cm;
use vek::mat::repr_c::row_major as rm;
use vek::mint;
use vek::quaternion::repr_c::Quaternion;
use vek::vec::repr_c::*;
use vkit::vk::MatN;
use vkit::*;

fn tr<T: Copy, const N: usize>(a: &[[T; N]; N]) -> [[T; N]; N] {
    let mut r = *a;
    for i in 0..N { for j in 0..N { r[i][j] = a[j][i]; } }
    r
}

/// idx = base offset of the distinct integers.
pub fn mint_case(idx: u64, cx: &mut Cx) -> CaseResult {
    let base = idx as i64 * 1000 + 7;
    cx.nontrivial();
    sample!(cx, "distinct integers {}..", base);
    // vectors
    {
        let a = [base + 1, base + 2];
        let v: Vec2<i64> = VIo::mk(&a);
        let m: mint::Vector2<i64> = v.into();
        check_eq!(cx, [m.x, m.y], a, "Vec2 -> mint::Vector2");
        check_eq!(cx, Vec2::<i64>::from(mint::Vector2 { x: a[0], y: a[1] }).rd(), a, "mint::Vector2 -> Vec2");
        let m: mint::Point2<i64> = v.into();
        check_eq!(cx, [m.x, m.y], a, "Vec2 -> mint::Point2");
        check_eq!(cx, Vec2::<i64>::from(mint::Point2 { x: a[0], y: a[1] }).rd(), a, "mint::Point2 -> Vec2");
        cx.label("vec2");
    }
    {
        let a = [base + 1, base + 2, base + 3];
        let v: Vec3<i64> = VIo::mk(&a);
        let m: mint::Vector3<i64> = v.into();
        check_eq!(cx, [m.x, m.y, m.z], a, "Vec3 -> mint::Vector3");
        check_eq!(cx, Vec3::<i64>::from(mint::Vector3 { x: a[0], y: a[1], z: a[2] }).rd(), a, "mint::Vector3 -> Vec3");
        let m: mint::Point3<i64> = v.into();
        check_eq!(cx, [m.x, m.y, m.z], a, "Vec3 -> mint::Point3");
        check_eq!(cx, Vec3::<i64>::from(mint::Point3 { x: a[0], y: a[1], z: a[2] }).rd(), a, "mint::Point3 -> Vec3");
        cx.label("vec3");
    }
    {
        let a = [base + 1, base + 2, base + 3, base + 4];
        let v: Vec4<i64> = VIo::mk(&a);
        let m: mint::Vector4<i64> = v.into();
        check_eq!(cx, [m.x, m.y, m.z, m.w], a, "Vec4 -> mint::Vector4");
        check_eq!(cx, Vec4::<i64>::from(mint::Vector4 { x: a[0], y: a[1], z: a[2], w: a[3] }).rd(), a, "mint::Vector4 -> Vec4");
        cx.label("vec4");
    }
    // quaternion: mint's is (vector part v, scalar part s); vek's scalar part is w
    {
        let q = Quaternion { x: base + 1, y: base + 2, z: base + 3, w: base + 4 };
        let m: mint::Quaternion<i64> = q.into();
        check_eq!(cx, [m.v.x, m.v.y, m.v.z, m.s], [q.x, q.y, q.z, q.w], "Quaternion -> mint::Quaternion (v.x v.y v.z s)");
        let back = Quaternion::<i64>::from(mint::Quaternion { v: mint::Vector3 { x: base + 1, y: base + 2, z: base + 3 }, s: base + 4 });
        check_eq!(cx, [back.x, back.y, back.z, back.w], [q.x, q.y, q.z, q.w], "mint::Quaternion -> Quaternion");
        cx.label("quaternion");
    }
    // matrices: a[i][j] is the element in row i, column j
    macro_rules! mats {
        ($Mat:ident, $Row:ident, $Col:ident, $n:expr) => {{
            const N: usize = $n;
            let mut a = [[0i64; N]; N];
            for i in 0..N { for j in 0..N { a[i][j] = base + 10 * i as i64 + j as i64; } }
            // mint's own array conversions: RowMatrix from its rows, ColumnMatrix from its columns
            let mrow: mint::$Row<i64> = a.into();
            let mcol: mint::$Col<i64> = tr(&a).into();
            let r: rm::$Mat<i64> = MatN::from_arr(&a);
            let c: cm::$Mat<i64> = MatN::from_arr(&a);
            // into
            let g: mint::$Row<i64> = r.into();
            check_eq!(cx, g, mrow, "row_major::{} -> mint::{} (rows of {:?})", stringify!($Mat), stringify!($Row), a);
            let g: mint::$Col<i64> = r.into();
            check_eq!(cx, g, mcol, "row_major::{} -> mint::{} (columns of {:?})", stringify!($Mat), stringify!($Col), a);
            let g: mint::$Row<i64> = c.into();
            check_eq!(cx, g, mrow, "column_major::{} -> mint::{} (rows of {:?})", stringify!($Mat), stringify!($Row), a);
            let g: mint::$Col<i64> = c.into();
            check_eq!(cx, g, mcol, "column_major::{} -> mint::{} (columns of {:?})", stringify!($Mat), stringify!($Col), a);
            // from
            check_eq!(cx, rm::$Mat::<i64>::from(mrow).to_arr(), a, "mint::{} -> row_major::{}", stringify!($Row), stringify!($Mat));
            check_eq!(cx, rm::$Mat::<i64>::from(mcol).to_arr(), a, "mint::{} -> row_major::{}", stringify!($Col), stringify!($Mat));
            check_eq!(cx, cm::$Mat::<i64>::from(mrow).to_arr(), a, "mint::{} -> column_major::{}", stringify!($Row), stringify!($Mat));
            check_eq!(cx, cm::$Mat::<i64>::from(mcol).to_arr(), a, "mint::{} -> column_major::{}", stringify!($Col), stringify!($Mat));
            cx.label(concat!("mat", stringify!($n)));
        }};
    }
    mats!(Mat2, RowMatrix2, ColumnMatrix2, 2);
    mats!(Mat3, RowMatrix3, ColumnMatrix3, 3);
    mats!(Mat4, RowMatrix4, ColumnMatrix4, 4);
    Ok(())
}

pub trait PodS: Sc + Pod + Zero {
    fn val(base: u64, i: usize) -> Self;
}
impl PodS for f32 { fn val(base: u64, i: usize) -> Self { base as f32 * 64.0 + i as f32 + 0.5 } }
impl PodS for f64 { fn val(base: u64, i: usize) -> Self { -(base as f64) * 64.0 - i as f64 - 0.25 } }
impl PodS for i32 { fn val(base: u64, i: usize) -> Self { -((base * 1000) as i32) - i as i32 - 1 } }
impl PodS for u16 { fn val(base: u64, i: usize) -> Self { (base * 256) as u16 + i as u16 + 1 } }
impl PodS for u8 { fn val(base: u64, i: usize) -> Self { (base as u8).wrapping_mul(3).wrapping_add(i as u8).wrapping_add(1) } }

fn lane_bytes<T: PodS, const K: usize>(a: &[T; K]) -> Vec<u8> {
    let mut out = Vec::new();
    for x in a { out.extend_from_slice(bytemuck::bytes_of(x)); }
    out
}

/// Pod + Zeroable of something whose fields, in declaration order, are `K` scalars `order[i]` of the flat representation.
fn pod_flat<T: PodS, C: Flat<T, K> + Pod, const K: usize>(cx: &mut Cx, base: u64, order: &[usize; K]) -> CaseResult {
    // zeroed() = zero
    let z: [T; K] = <C as Zeroable>::zeroed().rdf();
    check!(cx, z.iter().all(|x| x.same(T::zero())), "{}<{}>: Zeroable::zeroed() = {:?}", C::NAME, T::NAME, z);
    // bytes list the fields in declaration order
    let mut a = [T::zero(); K];
    for i in 0..K { a[i] = T::val(base, i); }
    let mut decl = a;
    for i in 0..K { decl[i] = a[order[i]]; }
    let v = C::mkf(&a);
    let want = lane_bytes(&decl);
    check_eq!(cx, std::mem::size_of::<C>(), want.len(), "{}<{}> size", C::NAME, T::NAME);
    check_eq!(cx, bytemuck::bytes_of(&v).to_vec(), want, "{}<{}> bytes_of({:?}) vs fields in declaration order {:?}", C::NAME, T::NAME, a, decl);
    let back: C = bytemuck::pod_read_unaligned(&want);
    check!(cx, same_arr(&back.rdf(), &a), "{}<{}> pod_read_unaligned(bytes of {:?}) = {:?}", C::NAME, T::NAME, decl, back);
    Ok(())
}

fn ident<const K: usize>() -> [usize; K] {
    let mut o = [0; K];
    for i in 0..K { o[i] = i; }
    o
}
/// Column-major storage: field k of an NxN matrix is element (k % N, k / N), i.e. flat index (k % N) * N + k / N.
fn colmajor<const K: usize>(n: usize) -> [usize; K] {
    let mut o = [0; K];
    for k in 0..K { o[k] = (k % n) * n + k / n; }
    o
}

fn pod_vec<T: PodS, V: VIo<T, N> + Flat<T, N> + Pod + Zero, const N: usize>(base: u64, cx: &mut Cx) -> CaseResult {
    pod_flat::<T, V, N>(cx, base, &ident())?;
    let z = <V as Zeroable>::zeroed();
    check!(cx, z == <V as Zero>::zero(), "{}<{}>: zeroed() {:?} != zero() {:?}", <V as VIo<T, N>>::NAME, T::NAME, z, <V as Zero>::zero());
    Ok(())
}

fn pod_all<T: PodS>(base: u64, cx: &mut Cx) -> CaseResult {
    type F = fn(u64, &mut Cx) -> CaseResult;
    for (_, f) in vec_table!(pod_vec, T, F) {
        f(base, cx)?;
    }
    pod_flat::<T, rm::Mat2<T>, 4>(cx, base, &ident())?;
    pod_flat::<T, rm::Mat3<T>, 9>(cx, base, &ident())?;
    pod_flat::<T, rm::Mat4<T>, 16>(cx, base, &ident())?;
    pod_flat::<T, cm::Mat2<T>, 4>(cx, base, &colmajor(2))?;
    pod_flat::<T, cm::Mat3<T>, 9>(cx, base, &colmajor(3))?;
    pod_flat::<T, cm::Mat4<T>, 16>(cx, base, &colmajor(4))?;
    pod_flat::<T, Quaternion<T>, 4>(cx, base, &ident())?;
    check!(cx, <rm::Mat4<T> as Zeroable>::zeroed() == rm::Mat4::<T>::zero(), "row_major::Mat4 zeroed() != zero()");
    check!(cx, <cm::Mat4<T> as Zeroable>::zeroed() == cm::Mat4::<T>::zero(), "column_major::Mat4 zeroed() != zero()");
    check!(cx, <rm::Mat3<T> as Zeroable>::zeroed() == rm::Mat3::<T>::zero(), "row_major::Mat3 zeroed() != zero()");
    check!(cx, <cm::Mat3<T> as Zeroable>::zeroed() == cm::Mat3::<T>::zero(), "column_major::Mat3 zeroed() != zero()");
    check!(cx, <rm::Mat2<T> as Zeroable>::zeroed() == rm::Mat2::<T>::zero(), "row_major::Mat2 zeroed() != zero()");
    check!(cx, <cm::Mat2<T> as Zeroable>::zeroed() == cm::Mat2::<T>::zero(), "column_major::Mat2 zeroed() != zero()");
    check!(cx, <Quaternion<T> as Zeroable>::zeroed() == Quaternion::<T>::zero(), "Quaternion zeroed() != zero()");
    Ok(())
}

/// idx = base of the distinct values.
pub fn bytemuck_case(idx: u64, cx: &mut Cx) -> CaseResult {
    cx.nontrivial();
    sample!(cx, "distinct values from base {}", idx);
    pod_all::<f32>(idx, cx)?;
    pod_all::<f64>(idx, cx)?;
    pod_all::<i32>(idx, cx)?;
    pod_all::<u16>(idx, cx)?;
    pod_all::<u8>(idx, cx)?;
    // the explicitly named examples: casts to plain arrays
    let v = Vec4 { x: 1.5f32 + idx as f32, y: 2.5, z: 3.5, w: 4.5 };
    check_eq!(cx, bytemuck::cast::<Vec4<f32>, [f32; 4]>(v), [v.x, v.y, v.z, v.w], "cast Vec4<f32> -> [f32; 4]");
    check_eq!(cx, bytemuck::cast::<[f32; 4], Vec4<f32>>([v.x, v.y, v.z, v.w]), v, "cast [f32; 4] -> Vec4<f32>");
    let mut a = [[0f32; 4]; 4];
    for i in 0..4 { for j in 0..4 { a[i][j] = idx as f32 + (10 * i + j) as f32; } }
    let r: rm::Mat4<f32> = MatN::from_arr(&a);
    let c: cm::Mat4<f32> = MatN::from_arr(&a);
    check_eq!(cx, bytemuck::cast::<rm::Mat4<f32>, [[f32; 4]; 4]>(r), a, "cast row_major::Mat4<f32> -> rows");
    check_eq!(cx, bytemuck::cast::<cm::Mat4<f32>, [[f32; 4]; 4]>(c), tr(&a), "cast column_major::Mat4<f32> -> columns");
    Ok(())
}
