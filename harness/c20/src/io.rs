//! Building and reading vek values through their *public fields* only (never through the
//! conversions / constructors that other properties judge).

use std::fmt::Debug;
use vek::geom::repr_c::{Aabb, Aabr, LineSegment2, LineSegment3, Rect, Rect3};
use vek::mat::repr_c::column_major as cm;
use vek::mat::repr_c::row_major as rm;
use vek::quaternion::repr_c::Quaternion;
use vek::vec::repr_c::*;
use vkit::vk::MatN;

/// A vector type with `N` lanes of `T`, built / read lane by lane in declaration order.
pub trait VIo<T: Copy, const N: usize>: Copy + Debug + PartialEq {
    const NAME: &'static str;
    fn mk(a: &[T; N]) -> Self;
    fn rd(&self) -> [T; N];
}

/// Anything made of `K` scalars (vectors: lanes; matrices: element (i,j) at i*N+j; quaternion: x y z w).
pub trait Flat<T: Copy, const K: usize>: Copy + Debug {
    const NAME: &'static str;
    fn mkf(a: &[T; K]) -> Self;
    fn rdf(&self) -> [T; K];
}

macro_rules! vio_struct {
    ($V:ident, $n:expr, $($f:ident)+) => {
        impl<T: Copy + Debug + PartialEq> VIo<T, $n> for $V<T> {
            const NAME: &'static str = stringify!($V);
            fn mk(a: &[T; $n]) -> Self {
                let mut it = a.iter().copied();
                // struct-expression fields are evaluated in the order written
                $V { $($f: it.next().unwrap()),+ }
            }
            fn rd(&self) -> [T; $n] {
                [$(self.$f),+]
            }
        }
        impl<T: Copy + Debug + PartialEq> Flat<T, $n> for $V<T> {
            const NAME: &'static str = stringify!($V);
            fn mkf(a: &[T; $n]) -> Self { <Self as VIo<T, $n>>::mk(a) }
            fn rdf(&self) -> [T; $n] { <Self as VIo<T, $n>>::rd(self) }
        }
    };
}
macro_rules! vio_tuple {
    ($V:ident, $n:expr, $($i:tt)+) => {
        impl<T: Copy + Debug + PartialEq> VIo<T, $n> for $V<T> {
            const NAME: &'static str = stringify!($V);
            fn mk(a: &[T; $n]) -> Self {
                $V($(a[$i]),+)
            }
            fn rd(&self) -> [T; $n] {
                [$(self.$i),+]
            }
        }
        impl<T: Copy + Debug + PartialEq> Flat<T, $n> for $V<T> {
            const NAME: &'static str = stringify!($V);
            fn mkf(a: &[T; $n]) -> Self { <Self as VIo<T, $n>>::mk(a) }
            fn rdf(&self) -> [T; $n] { <Self as VIo<T, $n>>::rd(self) }
        }
    };
}
vio_struct!(Vec2, 2, x y);
vio_struct!(Vec3, 3, x y z);
vio_struct!(Vec4, 4, x y z w);
vio_struct!(Extent2, 2, w h);
vio_struct!(Extent3, 3, w h d);
vio_struct!(Rgb, 3, r g b);
vio_struct!(Rgba, 4, r g b a);
vio_struct!(Uv, 2, u v);
vio_struct!(Uvw, 3, u v w);
vio_tuple!(Vec8, 8, 0 1 2 3 4 5 6 7);
vio_tuple!(Vec16, 16, 0 1 2 3 4 5 6 7 8 9 10 11 12 13 14 15);
vio_tuple!(Vec32, 32, 0 1 2 3 4 5 6 7 8 9 10 11 12 13 14 15 16 17 18 19 20 21 22 23 24 25 26 27 28 29 30 31);
vio_tuple!(Vec64, 64, 0 1 2 3 4 5 6 7 8 9 10 11 12 13 14 15 16 17 18 19 20 21 22 23 24 25 26 27 28 29 30 31 32 33 34 35 36 37 38 39 40 41 42 43 44 45 46 47 48 49 50 51 52 53 54 55 56 57 58 59 60 61 62 63);

macro_rules! flat_mat {
    ($M:ty, $n:expr, $k:expr, $name:expr) => {
        impl<T: Copy + Debug> Flat<T, $k> for $M {
            const NAME: &'static str = $name;
            fn mkf(a: &[T; $k]) -> Self {
                let mut m = [[a[0]; $n]; $n];
                for i in 0..$n { for j in 0..$n { m[i][j] = a[i * $n + j]; } }
                <Self as MatN<T, $n>>::from_arr(&m)
            }
            fn rdf(&self) -> [T; $k] {
                let m = <Self as MatN<T, $n>>::to_arr(self);
                let mut a = [m[0][0]; $k];
                for i in 0..$n { for j in 0..$n { a[i * $n + j] = m[i][j]; } }
                a
            }
        }
    };
}
flat_mat!(rm::Mat2<T>, 2, 4, "row_major::Mat2");
flat_mat!(rm::Mat3<T>, 3, 9, "row_major::Mat3");
flat_mat!(rm::Mat4<T>, 4, 16, "row_major::Mat4");
flat_mat!(cm::Mat2<T>, 2, 4, "column_major::Mat2");
flat_mat!(cm::Mat3<T>, 3, 9, "column_major::Mat3");
flat_mat!(cm::Mat4<T>, 4, 16, "column_major::Mat4");

impl<T: Copy + Debug> Flat<T, 4> for Quaternion<T> {
    const NAME: &'static str = "Quaternion";
    fn mkf(a: &[T; 4]) -> Self { Quaternion { x: a[0], y: a[1], z: a[2], w: a[3] } }
    fn rdf(&self) -> [T; 4] { [self.x, self.y, self.z, self.w] }
}

// shapes (fields in declaration order)
impl<T: Copy + Debug> Flat<T, 4> for LineSegment2<T> {
    const NAME: &'static str = "LineSegment2";
    fn mkf(a: &[T; 4]) -> Self { LineSegment2 { start: Vec2 { x: a[0], y: a[1] }, end: Vec2 { x: a[2], y: a[3] } } }
    fn rdf(&self) -> [T; 4] { [self.start.x, self.start.y, self.end.x, self.end.y] }
}
impl<T: Copy + Debug> Flat<T, 6> for LineSegment3<T> {
    const NAME: &'static str = "LineSegment3";
    fn mkf(a: &[T; 6]) -> Self { LineSegment3 { start: Vec3 { x: a[0], y: a[1], z: a[2] }, end: Vec3 { x: a[3], y: a[4], z: a[5] } } }
    fn rdf(&self) -> [T; 6] { [self.start.x, self.start.y, self.start.z, self.end.x, self.end.y, self.end.z] }
}
impl<T: Copy + Debug> Flat<T, 4> for Aabr<T> {
    const NAME: &'static str = "Aabr";
    fn mkf(a: &[T; 4]) -> Self { Aabr { min: Vec2 { x: a[0], y: a[1] }, max: Vec2 { x: a[2], y: a[3] } } }
    fn rdf(&self) -> [T; 4] { [self.min.x, self.min.y, self.max.x, self.max.y] }
}
impl<T: Copy + Debug> Flat<T, 6> for Aabb<T> {
    const NAME: &'static str = "Aabb";
    fn mkf(a: &[T; 6]) -> Self { Aabb { min: Vec3 { x: a[0], y: a[1], z: a[2] }, max: Vec3 { x: a[3], y: a[4], z: a[5] } } }
    fn rdf(&self) -> [T; 6] { [self.min.x, self.min.y, self.min.z, self.max.x, self.max.y, self.max.z] }
}

pub fn mk_rect<P: Copy, E: Copy>(p: &[P; 2], e: &[E; 2]) -> Rect<P, E> {
    Rect { x: p[0], y: p[1], w: e[0], h: e[1] }
}
pub fn rd_rect<P: Copy, E: Copy>(r: &Rect<P, E>) -> ([P; 2], [E; 2]) {
    ([r.x, r.y], [r.w, r.h])
}
pub fn mk_rect3<P: Copy, E: Copy>(p: &[P; 3], e: &[E; 3]) -> Rect3<P, E> {
    Rect3 { x: p[0], y: p[1], z: p[2], w: e[0], h: e[1], d: e[2] }
}
pub fn rd_rect3<P: Copy, E: Copy>(r: &Rect3<P, E>) -> ([P; 3], [E; 3]) {
    ([r.x, r.y, r.z], [r.w, r.h, r.d])
}

/// Scalar with an "identical value" relation: `==` for integers; for floats the same bit pattern
/// (so +0 and -0 differ) or both NaN.
pub trait Sc: Copy + Debug + PartialEq + Send + Sync + 'static {
    const NAME: &'static str;
    fn same(self, o: Self) -> bool;
}
macro_rules! sc_int { ($($t:ident)+) => { $(impl Sc for $t { const NAME: &'static str = stringify!($t); fn same(self, o: Self) -> bool { self == o } })+ } }
sc_int!(i8 i16 i32 i64 u8 u16 u32 u64);
macro_rules! sc_float { ($($t:ident)+) => { $(impl Sc for $t { const NAME: &'static str = stringify!($t); fn same(self, o: Self) -> bool { (self.is_nan() && o.is_nan()) || self.to_bits() == o.to_bits() } })+ } }
sc_float!(f32 f64);

pub fn same_arr<T: Sc, const K: usize>(a: &[T; K], b: &[T; K]) -> bool {
    a.iter().zip(b.iter()).all(|(x, y)| x.same(*y))
}

/// `[(lanes, f::<T, VecK<T>, K>), ...]` over the 13 vector types, `f` a generic fn with `<T, V, const N>`.
#[macro_export]
macro_rules! vec_table {
    ($f:ident, $T:ty, $Fn:ty) => {
        [
            (2usize, $f::<$T, vek::vec::repr_c::Vec2<$T>, 2> as $Fn),
            (3, $f::<$T, vek::vec::repr_c::Vec3<$T>, 3> as $Fn),
            (4, $f::<$T, vek::vec::repr_c::Vec4<$T>, 4> as $Fn),
            (8, $f::<$T, vek::vec::repr_c::Vec8<$T>, 8> as $Fn),
            (16, $f::<$T, vek::vec::repr_c::Vec16<$T>, 16> as $Fn),
            (32, $f::<$T, vek::vec::repr_c::Vec32<$T>, 32> as $Fn),
            (64, $f::<$T, vek::vec::repr_c::Vec64<$T>, 64> as $Fn),
            (2, $f::<$T, vek::vec::repr_c::Extent2<$T>, 2> as $Fn),
            (3, $f::<$T, vek::vec::repr_c::Extent3<$T>, 3> as $Fn),
            (3, $f::<$T, vek::vec::repr_c::Rgb<$T>, 3> as $Fn),
            (4, $f::<$T, vek::vec::repr_c::Rgba<$T>, 4> as $Fn),
            (2, $f::<$T, vek::vec::repr_c::Uv<$T>, 2> as $Fn),
            (3, $f::<$T, vek::vec::repr_c::Uvw<$T>, 3> as $Fn),
        ]
    };
}
pub type IdxFn = fn(u64, &mut vkit::Cx) -> vkit::CaseResult;
pub type TapeFn = fn(&mut vkit::Tape, &mut vkit::Cx) -> vkit::CaseResult;

/// Split a global index over a table of (sub-space size, handler).
pub fn dispatch(idx: u64, table: &[(u64, IdxFn)], cx: &mut vkit::Cx) -> vkit::CaseResult {
    let mut i = idx;
    for (n, f) in table {
        if i < *n {
            return f(i, cx);
        }
        i -= *n;
    }
    Err(vkit::Fail::Violation(format!("harness: index {} out of range", idx)))
}
