//! C20 (behaviour half) — numeric lifts, casts and approximate equality are per-element;
//! mint / bytemuck interoperability keeps the fields.
//!
//! The feature-configuration build matrix of C20 is a separate tool; nothing here depends on it.

pub mod approxeq;
pub mod casts;
pub mod interop;
pub mod io;
pub mod lifts;
#[macro_use]
pub mod provided;
pub mod recorder;

use io::*;
use vek::mat::repr_c::column_major as cm;
use vek::mat::repr_c::row_major as rm;
use vek::vec::repr_c::{Vec32, Vec64};
use vkit::*;

/// Zero/One/is_zero on the six matrix types.
fn zo_mats<T: lifts::ZoS + num_traits::MulAdd<T, T, Output = T>>(idx: u64, cx: &mut Cx) -> CaseResult {
    let s = T::specials().len() as u64;
    let tab: [(u64, IdxFn); 6] = [
        (4 * s, lifts::zo_mat::<T, rm::Mat2<T>, 2>),
        (9 * s, lifts::zo_mat::<T, rm::Mat3<T>, 3>),
        (16 * s, lifts::zo_mat::<T, rm::Mat4<T>, 4>),
        (4 * s, lifts::zo_mat::<T, cm::Mat2<T>, 2>),
        (9 * s, lifts::zo_mat::<T, cm::Mat3<T>, 3>),
        (16 * s, lifts::zo_mat::<T, cm::Mat4<T>, 4>),
    ];
    dispatch(idx, &tab, cx)
}
fn zo_mats_total<T: lifts::ZoS>() -> u64 {
    58 * T::specials().len() as u64
}

pub fn property() -> Property {
    let mut checks = Vec::new();
    macro_rules! tape {
        ($name:expr, $about:expr, $len:expr, $q:expr, $th:expr, $f:expr) => {
            checks.push(Check { name: $name, about: $about, kind: Kind::Tape { len: $len, quick: $q, thorough: $th, f: $f } });
        };
    }
    macro_rules! index {
        ($name:expr, $about:expr, $total:expr, $q:expr, $th:expr, $f:expr) => {
            checks.push(Check { name: $name, about: $about, kind: Kind::Index { total: $total, quick: $q, thorough: $th, f: $f } });
        };
    }
    const ALL: u64 = u64::MAX;

    // ---- lifted integer ops, exhaustive over 8-bit operand pairs per lane position
    let sweep = "checked_{add,sub,mul,div,rem,neg,div_euclid,rem_euclid}, wrapping_{add,sub,mul,neg}, saturating_{add,sub,mul}, overflowing_{add,sub,mul}, div_euclid/rem_euclid, is_zero: one case = (vector type, lane p, background, x); every y of the 8-bit type is swept inside, (x,y) placed at lane p; backgrounds: benign / the next lane fails on its own / the previous lane fails on its own. Lane i of the result = the scalar trait method on lane i; None iff some lane None; flag iff some lane flag; panic iff some lane panics";
    index!("lift8-i8", sweep, lifts::SWEEP_SMALL_TOTAL, ALL, ALL, lifts::sweep_small::<i8>);
    index!("lift8-u8", sweep, lifts::SWEEP_SMALL_TOTAL, ALL, ALL, lifts::sweep_small::<u8>);
    let edge = "the same sweep on the wide tuple vectors, lanes {0, 1, N/2, N-2, N-1}, all (x,y)";
    index!("lift8-i8-vec32-edge", edge, 5 * lifts::SWEEP_PER_LANE, ALL, ALL, lifts::sweep_edge::<i8, Vec32<i8>, 32>);
    index!("lift8-u8-vec32-edge", edge, 5 * lifts::SWEEP_PER_LANE, ALL, ALL, lifts::sweep_edge::<u8, Vec32<u8>, 32>);
    index!("lift8-i8-vec64-edge", edge, 5 * lifts::SWEEP_PER_LANE, ALL, ALL, lifts::sweep_edge::<i8, Vec64<i8>, 64>);
    index!("lift8-u8-vec64-edge", edge, 5 * lifts::SWEEP_PER_LANE, ALL, ALL, lifts::sweep_edge::<u8, Vec64<u8>, 64>);
    let wide = "the same sweep on the wide tuple vectors over every lane (quick: seeded sample of (lane, background, x); thorough: all)";
    index!("lift8-i8-vec32-all", wide, 32 * lifts::SWEEP_PER_LANE, 768, ALL, lifts::sweep_all::<i8, Vec32<i8>, 32>);
    index!("lift8-u8-vec32-all", wide, 32 * lifts::SWEEP_PER_LANE, 768, ALL, lifts::sweep_all::<u8, Vec32<u8>, 32>);
    index!("lift8-i8-vec64-all", wide, 64 * lifts::SWEEP_PER_LANE, 768, ALL, lifts::sweep_all::<i8, Vec64<i8>, 64>);
    index!("lift8-u8-vec64-all", wide, 64 * lifts::SWEEP_PER_LANE, 768, ALL, lifts::sweep_all::<u8, Vec64<u8>, 64>);

    // ---- the same object on both sides
    let al = "every binary lifted op (checked / wrapping / saturating / overflowing / Euclid / checked Euclid, `==`, `!=`) as op(&v, &v) — THE SAME object on both sides — and as op(&v, &w) with w a distinct object of equal contents: all 13 vector types, every lane p, lane p sweeps all 256 values, backgrounds benign / the next / the previous lane fails on its own ((x,x) failing: MIN+MIN, MIN*MIN, MAX+MAX, 0/0); lane i = the scalar op on (v[i], v[i]); None / flag / panic iff some lane";
    index!("lift8-aliased-i8", al, lifts::ALIAS_TOTAL, ALL, ALL, lifts::alias_all::<i8>);
    index!("lift8-aliased-u8", al, lifts::ALIAS_TOTAL, ALL, ALL, lifts::alias_all::<u8>);

    // ---- sampled for the wider integer types
    let sampled = "the same lifted ops on all 13 vector types for a wider integer type: small benign lanes, 1..3 hot lanes with stratified operands (limits, 2^k+-1, 0, -1, random); operand form two objects (3/4) / the same object op(&v,&v) (1/8) / two objects of equal contents (1/8)";
    tape!("lift-sampled-i16", sampled, 96, 20_000, 600_000, lifts::sampled::<i16>);
    tape!("lift-sampled-i32", sampled, 96, 20_000, 600_000, lifts::sampled::<i32>);
    tape!("lift-sampled-i64", sampled, 96, 20_000, 600_000, lifts::sampled::<i64>);
    tape!("lift-sampled-u32", sampled, 96, 20_000, 600_000, lifts::sampled::<u32>);
    tape!("lift-sampled-u64", sampled, 96, 20_000, 600_000, lifts::sampled::<u64>);

    // ---- Zero / One / is_zero / Inv
    let zo = "Zero::zero() / One::one() have every lane 0 / 1; is_zero (is_one) iff every lane is zero (one) by the scalar's own is_zero: all 13 vector types, every lane position x special values (0, -0.0, 1, limits, NaN, inf, subnormal) x backgrounds (all zero / all one / distinct)";
    index!("zero-one-vec-i8", zo, lifts::zo_total::<i8>(), ALL, ALL, lifts::zo_all::<i8>);
    index!("zero-one-vec-u8", zo, lifts::zo_total::<u8>(), ALL, ALL, lifts::zo_all::<u8>);
    index!("zero-one-vec-i32", zo, lifts::zo_total::<i32>(), ALL, ALL, lifts::zo_all::<i32>);
    index!("zero-one-vec-u64", zo, lifts::zo_total::<u64>(), ALL, ALL, lifts::zo_all::<u64>);
    index!("zero-one-vec-f32", zo, lifts::zo_total::<f32>(), ALL, ALL, lifts::zo_all::<f32>);
    index!("zero-one-vec-f64", zo, lifts::zo_total::<f64>(), ALL, ALL, lifts::zo_all::<f64>);
    let zom = "six matrix types: Zero::zero() all elements 0, One::one() the identity, is_zero iff every element zero (every (i,j) x special values)";
    index!("zero-one-mat-i32", zom, zo_mats_total::<i32>(), ALL, ALL, zo_mats::<i32>);
    index!("zero-one-mat-u8", zom, zo_mats_total::<u8>(), ALL, ALL, zo_mats::<u8>);
    index!("zero-one-mat-f32", zom, zo_mats_total::<f32>(), ALL, ALL, zo_mats::<f32>);
    index!("zero-one-mat-f64", zom, zo_mats_total::<f64>(), ALL, ALL, zo_mats::<f64>);
    let inv = "Inv::inv on all 13 vector types: lane i = scalar inv of lane i (bit-exact; +-0, inf, NaN, subnormal, MAX in every lane position)";
    index!("inv-f32", inv, lifts::inv_total::<f32>(), ALL, ALL, lifts::inv_all::<f32>);
    index!("inv-f64", inv, lifts::inv_total::<f64>(), ALL, ALL, lifts::inv_all::<f64>);

    let eu = "Euclid::div_euclid / rem_euclid on float vectors, all 13 vector types: lane i = the scalar's (bit-exact); every lane position x every pair of special values (+-0, 1, subnormal, MAX, +-inf, NaN, ...) as two objects, and (v, v) as the same object / an equal vector";
    index!("euclid-f32", eu, lifts::euclid_total::<f32>(), ALL, ALL, lifts::euclid_all::<f32>);
    index!("euclid-f64", eu, lifts::euclid_total::<f64>(), ALL, ALL, lifts::euclid_all::<f64>);

    // ---- every method (required and provided) of every lifted num-traits trait, through the trait
    index!("trait-methods-i8", provided::ABOUT_INT, provided::TOTAL, ALL, ALL, provided::int_all::<i8>);
    index!("trait-methods-i16", provided::ABOUT_INT, provided::TOTAL, ALL, ALL, provided::int_all::<i16>);
    index!("trait-methods-i32", provided::ABOUT_INT, provided::TOTAL, ALL, ALL, provided::int_all::<i32>);
    index!("trait-methods-i64", provided::ABOUT_INT, provided::TOTAL, ALL, ALL, provided::int_all::<i64>);
    index!("trait-methods-i128", provided::ABOUT_INT, provided::TOTAL, ALL, ALL, provided::int_all::<i128>);
    index!("trait-methods-isize", provided::ABOUT_INT, provided::TOTAL, ALL, ALL, provided::int_all::<isize>);
    index!("trait-methods-u8", provided::ABOUT_INT, provided::TOTAL, ALL, ALL, provided::int_all::<u8>);
    index!("trait-methods-u16", provided::ABOUT_INT, provided::TOTAL, ALL, ALL, provided::int_all::<u16>);
    index!("trait-methods-u32", provided::ABOUT_INT, provided::TOTAL, ALL, ALL, provided::int_all::<u32>);
    index!("trait-methods-u64", provided::ABOUT_INT, provided::TOTAL, ALL, ALL, provided::int_all::<u64>);
    index!("trait-methods-u128", provided::ABOUT_INT, provided::TOTAL, ALL, ALL, provided::int_all::<u128>);
    index!("trait-methods-usize", provided::ABOUT_INT, provided::TOTAL, ALL, ALL, provided::int_all::<usize>);
    index!("trait-methods-f32", provided::ABOUT_FLOAT, provided::TOTAL, ALL, ALL, provided::float_all::<f32>);
    index!("trait-methods-f64", provided::ABOUT_FLOAT, provided::TOTAL, ALL, ALL, provided::float_all::<f64>);
    index!("trait-methods-recording-element", recorder::ABOUT_REC, provided::TOTAL, ALL, ALL, recorder::rec_all);
    index!("trait-methods-mat-more-ints", "six matrix types, the element types i16 i64 i128 isize u16 u32 u128 usize (zero-one-mat-* run i32 u8 f32 f64): Zero::{zero, set_zero, is_zero} and One::{one, set_one, is_one} through the trait — zero() all elements 0, one() the identity, set_zero / set_one on receivers that are neither, is_zero / is_one iff every element is the zero's / the identity's (every (i,j) x special values); vek lifts no other num-traits trait to matrices and none to quaternions", provided::MAT_MORE_TOTAL, ALL, ALL, provided::zo_mats_more);

    // ---- casts
    let cv = "as_ (the `as` operator per lane), numcast (NumCast per lane; None iff some lane None), az / checked_as / saturating_as / wrapping_as / overflowing_as / unwrapped_as and the six az trait impls called as traits (Cast / CheckedCast / SaturatingCast / WrappingCast / OverflowingCast / UnwrappedCast; per lane the scalar az trait; None / flag / panic iff some lane) on all 13 vector types, 24 (source, target) scalar pairs; 1..2 lanes hold boundary values (float classes, just inside / outside every integer range, integer limits), the others distinct benign values";
    tape!("cast-vectors", cv, 16, 48_000, 1_500_000, casts::cast_vectors);
    let cm_ = "as_ and numcast on the six matrix types, 24 scalar pairs, 1..2 elements at any (i,j) hold boundary values, the others distinct (so transposition shows)";
    tape!("cast-matrices", cm_, 16, 24_000, 720_000, casts::cast_matrices);
    let cs = "as_ on LineSegment2/3, Aabr, Aabb: every field converted by the `as` operator, fields keep their places";
    tape!("cast-shapes", cs, 16, 12_000, 360_000, casts::cast_shapes);
    let cr = "as_ on Rect / Rect3 with independent position and extent element types: x,y(,z) by the position pair's `as`, w,h(,d) by the extent pair's";
    tape!("cast-rects", cr, 24, 12_000, 360_000, casts::cast_rects);

    // ---- approximate equality
    let ap = "abs_diff_eq / relative_eq / ulps_eq, abs_diff_ne / relative_ne / ulps_ne, the approx front-end macros with default tolerances, `==` / `!=` on 13 vector types, 6 matrix types, quaternion: operands identical except one position (every lane / every (i,j)), which holds one of 24 pairs (0, 1 ulp, eps, 2 eps, 4/5 ulps, sign of zero, NaN, inf vs inf, inf vs -inf, large-relative-small-absolute, ...), both orders; 7 epsilons x 5 max_relative x 6 max_ulps plus the defaults, plus the unusual tolerances (13 epsilons incl. negative / NaN / inf / MAX, each with 10 max_relative incl. 0 / 1 / >1 / inf / NaN and 9 max_ulps up to u32::MAX); result = conjunction of the scalar predicate; default_* = the scalar's";
    index!("approx-one-position-f32", ap, approxeq::ONE_LANE_TOTAL, ALL, ALL, approxeq::one_lane_all::<f32>);
    index!("approx-one-position-f64", ap, approxeq::ONE_LANE_TOTAL, ALL, ALL, approxeq::one_lane_all::<f64>);
    let aa = "THE SAME object on both sides: v.abs_diff_eq(&v, e) / relative_eq / ulps_eq, their _ne forms, the approx front-end macros (what assert_relative_eq!(v, v) expands to), `==` / `!=`, and the same against a bitwise copy in another variable (both orders): 13 vector types, 6 matrix types, quaternion; every lane / (i,j) position holds one of 14 special values (NaN of both signs, +-inf, +-0, +-subnormal, MIN_POSITIVE, +-MAX, ordinary), the others distinct ordinary values or the same special value; ordinary tolerances plus 13 epsilons (0, -0, subnormal, MAX, inf, negative, -inf, NaN) x 10 max_relative (0, 1, >1, inf, negative, NaN) x 9 max_ulps (0 .. i32::MAX, 2^31, u32::MAX); result = conjunction of the scalar predicate on (v[i], v[i]) — false for a NaN lane, an inf lane under abs_diff_eq, a negative / NaN epsilon";
    index!("approx-aliased-f32", aa, approxeq::ALIASED_TOTAL, ALL, ALL, approxeq::aliased_all::<f32>);
    index!("approx-aliased-f64", aa, approxeq::ALIASED_TOTAL, ALL, ALL, approxeq::aliased_all::<f64>);
    let ai = "AbsDiffEq (and abs_diff_ne, `==`, `!=`) of integer containers: 13 vector types, 6 matrix types, quaternion; one position holds one of 14 pairs (equal, off by 1 / 2, limits) in both orders, all epsilons (0, 1, 2, 6, 200, MAX; signed: -1, MIN); equal pairs also as the same object and as a bitwise copy; pairs whose difference overflows the type are excluded";
    index!("approx-int-i8", ai, approxeq::INT_ABS_TOTAL, ALL, ALL, approxeq::int_abs_all::<i8>);
    index!("approx-int-i32", ai, approxeq::INT_ABS_TOTAL, ALL, ALL, approxeq::int_abs_all::<i32>);
    index!("approx-int-i64", ai, approxeq::INT_ABS_TOTAL, ALL, ALL, approxeq::int_abs_all::<i64>);
    index!("approx-int-u8", ai, approxeq::INT_ABS_TOTAL, ALL, ALL, approxeq::int_abs_all::<u8>);
    index!("approx-int-u32", ai, approxeq::INT_ABS_TOTAL, ALL, ALL, approxeq::int_abs_all::<u32>);
    index!("approx-int-u64", ai, approxeq::INT_ABS_TOTAL, ALL, ALL, approxeq::int_abs_all::<u64>);
    let am = "the same predicates with several positions differing (each by its own kind), one tolerance triple per case (ordinary 5/8, unusual 3/8: negative / NaN / inf epsilon, max_relative 0 / >1 / NaN, max_ulps up to u32::MAX); operand form two objects (3/4) / the same object / a bitwise copy (1/8 each, holding the drawn special values)";
    index!("approx-custom-element", "a user element type whose default_epsilon (1e-9), default_max_relative (0.05) and default_max_ulps (7) all differ: every container's default_* equal the element's; the approx front-end macros / builders with DEFAULT tolerances and the explicit forms equal the conjunction of the element's verdicts, for operands 1% / 10% / 5 and 9 'ulps' / 0.5e-9 apart at each position", approxeq::POSITIONS, ALL, ALL, approxeq::custom_all);
    tape!("approx-mixed-f32", am, 224, 20_000, 600_000, approxeq::mixed_all::<f32>);
    tape!("approx-mixed-f64", am, 224, 20_000, 600_000, approxeq::mixed_all::<f64>);

    // ---- interoperability
    index!("mint", "Vec2/3/4 <-> mint Vector/Point, Quaternion <-> mint::Quaternion (s = w), row- and column-major Mat2/3/4 <-> mint RowMatrixN and ColumnMatrixN: distinct integers, element (i,j) keeps its meaning in all 8 directions", 64, ALL, ALL, interop::mint_case);
    index!("bytemuck", "Zeroable::zeroed() is all-zero and equals zero() for 13 vector types, 6 matrix types, quaternion; bytes_of lists the fields in declaration order (row-major: rows, column-major: columns) and reads back; cast to arrays for Vec4<f32>/Mat4<f32>", 64, ALL, ALL, interop::bytemuck_case);

    Property {
        id: "C20",
        rule: "index checks enumerate a finite space (vector type, lane / element position, background, operand or pair kind) completely in both tiers except the *-all sweeps of Vec32/Vec64 (quick: seeded sample; thorough: complete); tape checks decode proptest byte tapes (vector type, scalar pair, hot positions, boundary values). Non-trivial: lifted ops — across the y sweep the varied lane both fails (None / flag / panic) and succeeds while the other lanes are fixed (sampled: some lane fails); casts — some lane fails the checked / NumCast conversion while the others do not; approx — the varied position makes the predicate false for some tolerance while all other positions are identical (mixed: at least one position differs; same-object / bitwise-copy forms: some predicate is false on (v, v), i.e. an identity early-out would show); aliased lifts — as the lifted sweeps, with both operands the same object; integer abs_diff — some epsilon decides false; float Euclid — every case; zero/one — a single special element on a uniform background; trait-methods-* — across the edge-pair sweep the varied lane both offends (None / flag / panic / not zero) and does not, and the combined checked method returns None (and, on a benign background, Some) (floats: the combined method ran and some predicate was false; recording element: every case — the terms of a.m(&b), b.m(&a) and a.m2(&b) differ by construction)",
        assumptions: &[
            "rustc and the proptest runner/shrinker are trusted",
            "the scalar rule is the scalar's own impl of the same trait (num-traits Checked*/Wrapping*/Saturating*/Overflowing*/Euclid/Inv/NumCast, az casts, approx impls for f32/f64); for as_ it is the `as` operator",
            "vectors, matrices, quaternions and shapes are built and read through their public fields only",
            "mint's own array conversions (RowMatrixN from rows, ColumnMatrixN from columns) are trusted",
            "the harness profile has debug-assertions and overflow-checks on, for vek and for az alike, so az::Cast panics on overflow in both the lifted and the scalar call",
            "tolerances outside the usual range (negative, NaN, infinite epsilon / max_relative; max_ulps up to u32::MAX) are accepted by approx's scalar impls without any documented restriction, so the lifted predicates must reproduce the scalar's answer lane by lane there too; nothing is asserted about what that answer should be",
            "an operation applied to one object on both sides (op(&v, &v)) has the same per-lane meaning as on two objects: Rust references carry no identity semantics, and neither approx, num-traits nor vek document any",
            "integer AbsDiffEq: approx's signed impl computes abs(x - y), which overflows (panics in this profile) for far-apart values; lane evaluation order and short-circuiting are unspecified, so pairs whose difference or its absolute value overflows are not generated",
            "float results are compared bit for bit except that any NaN equals any NaN",
            "trait-methods-*: the scalar rule for a PROVIDED trait method (set_zero, set_one, is_one, div_rem_euclid, checked_div_rem_euclid) is that same method on the primitive, i.e. num-traits' default body; MulAdd on vectors belongs to C02 and is not judged here; num-traits' shift traits (CheckedShl/Shr, WrappingShl/Shr), Bounded, Signed, Num, Pow, MulAddAssign and Inv for references are not implemented for any vek type, so there is nothing to call",
            "trait-methods-recording-element: vek's lifts are generic over the element, so a user-defined element whose methods record (method, receiver, argument) is a legitimate instance; 'per element what the scalar operation returns' is read as: the element's own method of the same name, receiver from the left vector, argument from the right, lane i with lane i; 64-bit term hashes are assumed collision-free",
            "only the behaviour half of C20 is decided here; the feature-configuration build matrix is a separate tool",
        ],
        checks,
        max_discard_frac: 0.2,
    }
}
