//! Lifted num-traits operations on vectors: lane i of the lifted result is the scalar trait method
//! applied to lane i; checked forms are `None` iff some lane is; the overflow flag is the OR of the
//! lane flags; an unchecked lifted op panics iff some lane's scalar op panics.

use crate::io::*;
use crate::vec_table;
use num_traits::ops::checked::{CheckedAdd, CheckedDiv, CheckedMul, CheckedNeg, CheckedRem, CheckedSub};
use num_traits::ops::euclid::{CheckedEuclid, Euclid};
use num_traits::ops::inv::Inv;
use num_traits::ops::overflowing::{OverflowingAdd, OverflowingMul, OverflowingSub};
use num_traits::ops::saturating::{SaturatingAdd, SaturatingMul, SaturatingSub};
use num_traits::ops::wrapping::{WrappingAdd, WrappingMul, WrappingNeg, WrappingSub};
use num_traits::{One, Zero};
use vkit::vk::MatN;
use vkit::*;

pub trait IntS:
    Sc + Eq
    + CheckedAdd + CheckedSub + CheckedMul + CheckedDiv + CheckedRem + CheckedNeg
    + WrappingAdd + WrappingSub + WrappingMul + WrappingNeg
    + SaturatingAdd + SaturatingSub + SaturatingMul
    + OverflowingAdd + OverflowingSub + OverflowingMul
    + Euclid + CheckedEuclid + Zero + One
{
    const SIGNED: bool;
    const MIN_I: i128;
    const MAX_I: i128;
    /// wrapping conversion
    fn w(v: i128) -> Self;
    fn strat(t: &mut Tape) -> Self;
}
macro_rules! ints {
    ($($t:ident $signed:expr;)+) => { $(
        impl IntS for $t {
            const SIGNED: bool = $signed;
            const MIN_I: i128 = $t::MIN as i128;
            const MAX_I: i128 = $t::MAX as i128;
            fn w(v: i128) -> Self { v as $t }
            fn strat(t: &mut Tape) -> Self {
                if Self::MAX_I > i64::MAX as i128 {
                    // u64: reinterpret the bits (limits, small, 2^k+-1 are kept as such)
                    t.strat_i64(i64::MIN, i64::MAX) as u64 as $t
                } else {
                    t.strat_i64(Self::MIN_I as i64, Self::MAX_I as i64) as $t
                }
            }
        }
    )+ };
}
ints!(i8 true; u8 false; i16 true; i32 true; i64 true; u32 false; u64 false;);

/// Everything vek lifts for an integer vector.
pub trait LiftV<T: IntS, const N: usize>:
    VIo<T, N>
    + CheckedAdd + CheckedSub + CheckedMul + CheckedDiv + CheckedRem + CheckedNeg
    + WrappingAdd + WrappingSub + WrappingMul + WrappingNeg
    + SaturatingAdd + SaturatingSub + SaturatingMul
    + OverflowingAdd + OverflowingSub + OverflowingMul
    + Euclid + CheckedEuclid + Zero + One
{
}
impl<T: IntS, const N: usize, V> LiftV<T, N> for V where
    V: VIo<T, N>
        + CheckedAdd + CheckedSub + CheckedMul + CheckedDiv + CheckedRem + CheckedNeg
        + WrappingAdd + WrappingSub + WrappingMul + WrappingNeg
        + SaturatingAdd + SaturatingSub + SaturatingMul
        + OverflowingAdd + OverflowingSub + OverflowingMul
        + Euclid + CheckedEuclid + Zero + One
{
}

// operand classes: the "bad" lane of a background must fail for the op at hand
pub const C_ADD: usize = 0;
pub const C_SUB: usize = 1;
pub const C_MUL: usize = 2;
pub const C_DIV: usize = 3; // checked div / rem / div_euclid / rem_euclid
pub const C_NEG: usize = 4; // checked neg
pub const C_SAFE: usize = 5; // unchecked Euclid: extreme but not panicking
pub const NCLS: usize = 6;

fn bad_pair<T: IntS>(cls: usize) -> (T, T) {
    let (mn, mx) = (T::MIN_I, T::MAX_I);
    let (a, b) = if T::SIGNED {
        match cls {
            C_ADD => (mn, -1),
            C_SUB => (mn, 1),
            C_MUL => (mn, -1),
            C_DIV => (mn, -1),
            C_NEG => (mn, 1),
            _ => (mn, 1),
        }
    } else {
        match cls {
            C_ADD => (mx, 1),
            C_SUB => (0, 1),
            C_MUL => (mx, 2),
            C_DIV => (mx, 0),
            C_NEG => (1, 1),
            _ => (mx, 1),
        }
    };
    (T::w(a), T::w(b))
}

/// Small operands for which no lifted op overflows / fails.
fn benign_pair<T: IntS>(cls: usize, i: usize) -> (T, T) {
    if T::SIGNED {
        (T::w([3, -4, 5, -6, 7][i % 5]), T::w([1, -2, 3][i % 3]))
    } else if cls == C_NEG {
        // the only unsigned value whose checked negation exists
        (T::w(0), T::w(1 + (i % 3) as i128))
    } else {
        (T::w(3 + (i % 5) as i128), T::w(1 + (i % 3) as i128))
    }
}

pub type Arrs<T, const N: usize> = [([T; N], [T; N]); NCLS];

/// Per-class operand arrays: benign everywhere, and the class's failing pair at lane `bad` (if any).
pub fn backgrounds<T: IntS, const N: usize>(bad: Option<usize>) -> Arrs<T, N> {
    let mut out = [([T::zero(); N], [T::zero(); N]); NCLS];
    for cls in 0..NCLS {
        for i in 0..N {
            let (a, b) = benign_pair::<T>(cls, i);
            out[cls].0[i] = a;
            out[cls].1[i] = b;
        }
        if let Some(q) = bad {
            let (a, b) = bad_pair::<T>(cls);
            out[cls].0[q] = a;
            out[cls].1[q] = b;
        }
    }
    out
}

#[derive(Default)]
pub struct St {
    pub focus_fail: bool,
    pub focus_ok: bool,
    pub other_fail: bool,
    pub none: bool,
    pub some: bool,
    pub flag_set: bool,
    pub flag_clear: bool,
    pub panics: bool,
    pub div0: bool,
}

/// All lifted operations once, on the given per-class operands. `p` is the focus lane (statistics only).
pub fn ops_once<T: IntS, V: LiftV<T, N>, const N: usize>(cx: &mut Cx, arrs: &Arrs<T, N>, p: usize, st: &mut St) -> CaseResult {
    ops_form::<T, V, N>(cx, arrs, p, st, false)
}

/// `same`: both operands of every binary op are THE SAME object (`op(&v, &v)`); the caller passes
/// equal left and right arrays. Otherwise two objects built from the left and the right array.
pub fn ops_form<T: IntS, V: LiftV<T, N>, const N: usize>(cx: &mut Cx, arrs: &Arrs<T, N>, p: usize, st: &mut St, same: bool) -> CaseResult {
    let form: &'static str = if same { "op(&v, &v), the same object" } else { "two objects" };
    if same {
        for cls in 0..NCLS {
            if arrs[cls].0 != arrs[cls].1 {
                fail!("harness: aliased form needs equal operand arrays");
            }
        }
    }
    macro_rules! checked_bin {
        ($name:literal, $cls:expr, $Tr:ident, $m:ident) => {{
            let (a, b) = &arrs[$cls];
            let (va, vb) = (V::mk(a), V::mk(b));
            let rb: &V = if same { &va } else { &vb };
            let got = <V as $Tr>::$m(&va, rb);
            let mut want = *a;
            let mut none_at: Option<usize> = None;
            for i in 0..N {
                match <T as $Tr>::$m(&a[i], &b[i]) {
                    Some(r) => {
                        want[i] = r;
                        if i == p { st.focus_ok = true; }
                    }
                    None => {
                        none_at = Some(i);
                        if i == p { st.focus_fail = true; } else { st.other_fail = true; }
                    }
                }
            }
            match got {
                None => {
                    st.none = true;
                    check!(cx, none_at.is_some(), "{}<{}>::{}: lifted result is None but the scalar op is Some in every lane; a={:?} b={:?} [{}]", V::NAME, T::NAME, $name, a, b, form);
                }
                Some(g) => {
                    st.some = true;
                    check!(cx, none_at.is_none(), "{}<{}>::{}: lifted result is Some({:?}) but the scalar op is None in lane {}; a={:?} b={:?} [{}]", V::NAME, T::NAME, $name, g, none_at.unwrap(), a, b, form);
                    check_eq!(cx, g.rd(), want, "{}<{}>::{} a={:?} b={:?} [{}]", V::NAME, T::NAME, $name, a, b, form);
                }
            }
        }};
    }
    macro_rules! plain_bin {
        ($name:literal, $cls:expr, $Tr:ident, $m:ident) => {{
            let (a, b) = &arrs[$cls];
            let (va, vb) = (V::mk(a), V::mk(b));
            let rb: &V = if same { &va } else { &vb };
            let got = <V as $Tr>::$m(&va, rb);
            let mut want = *a;
            for i in 0..N { want[i] = <T as $Tr>::$m(&a[i], &b[i]); }
            check_eq!(cx, got.rd(), want, "{}<{}>::{} a={:?} b={:?} [{}]", V::NAME, T::NAME, $name, a, b, form);
        }};
    }
    macro_rules! overflowing_bin {
        ($name:literal, $cls:expr, $Tr:ident, $m:ident) => {{
            let (a, b) = &arrs[$cls];
            let (va, vb) = (V::mk(a), V::mk(b));
            let rb: &V = if same { &va } else { &vb };
            let (g, flag) = <V as $Tr>::$m(&va, rb);
            let mut want = *a;
            let mut any = false;
            for i in 0..N {
                let (r, o) = <T as $Tr>::$m(&a[i], &b[i]);
                want[i] = r;
                any |= o;
                if o { if i == p { st.focus_fail = true; } else { st.other_fail = true; } } else if i == p { st.focus_ok = true; }
            }
            if any { st.flag_set = true; } else { st.flag_clear = true; }
            check_eq!(cx, g.rd(), want, "{}<{}>::{} lanes, a={:?} b={:?} [{}]", V::NAME, T::NAME, $name, a, b, form);
            check_eq!(cx, flag, any, "{}<{}>::{} overflow flag, a={:?} b={:?} [{}]", V::NAME, T::NAME, $name, a, b, form);
        }};
    }
    // may panic (division by zero, MIN / -1): the lifted op panics iff some lane's scalar op does
    macro_rules! panicky_bin {
        ($name:literal, $cls:expr, $Tr:ident, $m:ident) => {{
            let (a, b) = &arrs[$cls];
            let m1 = T::zero().wrapping_sub(&T::one());
            let mut risky = false;
            for i in 0..N {
                if b[i].is_zero() { risky = true; st.div0 = true; }
                if T::SIGNED && a[i] == T::w(T::MIN_I) && b[i] == m1 { risky = true; }
            }
            let mut want = *a;
            if !risky {
                for i in 0..N { want[i] = <T as $Tr>::$m(&a[i], &b[i]); }
                let (va, vb) = (V::mk(a), V::mk(b));
            let rb: &V = if same { &va } else { &vb };
            let got = <V as $Tr>::$m(&va, rb);
                check_eq!(cx, got.rd(), want, "{}<{}>::{} a={:?} b={:?} [{}]", V::NAME, T::NAME, $name, a, b, form);
            } else {
                let mut panic_at: Option<usize> = None;
                for i in 0..N {
                    match vkit::catch(|| <T as $Tr>::$m(&a[i], &b[i])) {
                        Ok(r) => want[i] = r,
                        Err(_) => panic_at = Some(i),
                    }
                }
                let (va, vb) = (V::mk(a), V::mk(b));
                let rb: &V = if same { &va } else { &vb };
                let got = vkit::catch(|| <V as $Tr>::$m(&va, rb));
                match got {
                    Err(_) => {
                        st.panics = true;
                        check!(cx, panic_at.is_some(), "{}<{}>::{} panicked but no lane's scalar op does; a={:?} b={:?} [{}]", V::NAME, T::NAME, $name, a, b, form);
                    }
                    Ok(g) => {
                        check!(cx, panic_at.is_none(), "{}<{}>::{} returned {:?} but the scalar op panics in lane {}; a={:?} b={:?} [{}]", V::NAME, T::NAME, $name, g, panic_at.unwrap(), a, b, form);
                        check_eq!(cx, g.rd(), want, "{}<{}>::{} a={:?} b={:?} [{}]", V::NAME, T::NAME, $name, a, b, form);
                    }
                }
            }
        }};
    }
    checked_bin!("checked_add", C_ADD, CheckedAdd, checked_add);
    checked_bin!("checked_sub", C_SUB, CheckedSub, checked_sub);
    checked_bin!("checked_mul", C_MUL, CheckedMul, checked_mul);
    checked_bin!("checked_div", C_DIV, CheckedDiv, checked_div);
    checked_bin!("checked_rem", C_DIV, CheckedRem, checked_rem);
    checked_bin!("checked_div_euclid", C_DIV, CheckedEuclid, checked_div_euclid);
    checked_bin!("checked_rem_euclid", C_DIV, CheckedEuclid, checked_rem_euclid);
    plain_bin!("wrapping_add", C_ADD, WrappingAdd, wrapping_add);
    plain_bin!("wrapping_sub", C_SUB, WrappingSub, wrapping_sub);
    plain_bin!("wrapping_mul", C_MUL, WrappingMul, wrapping_mul);
    plain_bin!("saturating_add", C_ADD, SaturatingAdd, saturating_add);
    plain_bin!("saturating_sub", C_SUB, SaturatingSub, saturating_sub);
    plain_bin!("saturating_mul", C_MUL, SaturatingMul, saturating_mul);
    overflowing_bin!("overflowing_add", C_ADD, OverflowingAdd, overflowing_add);
    overflowing_bin!("overflowing_sub", C_SUB, OverflowingSub, overflowing_sub);
    overflowing_bin!("overflowing_mul", C_MUL, OverflowingMul, overflowing_mul);
    panicky_bin!("div_euclid", C_SAFE, Euclid, div_euclid);
    panicky_bin!("rem_euclid", C_SAFE, Euclid, rem_euclid);
    // unary: checked_neg (class NEG), wrapping_neg (distinct operands of class ADD)
    {
        let a = &arrs[C_NEG].0;
        let got = <V as CheckedNeg>::checked_neg(&V::mk(a));
        let mut want = *a;
        let mut none_at: Option<usize> = None;
        for i in 0..N {
            match a[i].checked_neg() {
                Some(r) => want[i] = r,
                None => {
                    none_at = Some(i);
                    if i == p { st.focus_fail = true; } else { st.other_fail = true; }
                }
            }
        }
        match got {
            None => check!(cx, none_at.is_some(), "{}<{}>::checked_neg: lifted None but every lane is Some; a={:?}", V::NAME, T::NAME, a),
            Some(g) => {
                check!(cx, none_at.is_none(), "{}<{}>::checked_neg: lifted Some({:?}) but lane {} is None; a={:?}", V::NAME, T::NAME, g, none_at.unwrap(), a);
                check_eq!(cx, g.rd(), want, "{}<{}>::checked_neg a={:?}", V::NAME, T::NAME, a);
            }
        }
        let a = &arrs[C_ADD].0;
        let got = <V as WrappingNeg>::wrapping_neg(&V::mk(a));
        let mut want = *a;
        for i in 0..N { want[i] = a[i].wrapping_neg(); }
        check_eq!(cx, got.rd(), want, "{}<{}>::wrapping_neg a={:?}", V::NAME, T::NAME, a);
    }
    Ok(())
}

pub const BGS: u64 = 3;
pub const SWEEP_PER_LANE: u64 = BGS * 256;

/// Lane positions used by the "edge" sweeps of the wide vectors.
pub fn edge_lanes(n: usize) -> [usize; 5] {
    [0, 1, n / 2, n - 2, n - 1]
}

/// One case = (lane p, background, x); all 256 values of y are swept inside the case.
fn sweep_core<T: IntS, V: LiftV<T, N>, const N: usize>(p: usize, bg: u64, xi: u64, cx: &mut Cx) -> CaseResult {
    let x = T::w(T::MIN_I + xi as i128);
    let bad = match bg {
        0 => None,
        1 => Some((p + 1) % N),
        _ => Some((p + N - 1) % N),
    };
    let mut arrs: Arrs<T, N> = backgrounds::<T, N>(bad);
    sample!(cx, "{}<{}> lane p={} background={} x={:?}, y sweeps all 256 values; class operands (add) A={:?} B={:?}", V::NAME, T::NAME, p, ["benign", "next lane fails", "previous lane fails"][bg as usize], x, arrs[C_ADD].0, arrs[C_ADD].1);
    let mut st = St::default();
    for yi in 0..256u64 {
        let y = T::w(T::MIN_I + yi as i128);
        for cls in 0..NCLS {
            arrs[cls].0[p] = x;
            arrs[cls].1[p] = y;
        }
        ops_once::<T, V, N>(cx, &arrs, p, &mut st)?;
    }
    // harness self-check: a "failing" background really makes every checked op None / flag set
    if bad.is_some() {
        check!(cx, !st.some && !st.flag_clear, "harness: failing background did not fail");
    }
    // is_zero: zero everywhere except lane p
    {
        let mut z = [T::zero(); N];
        z[p] = x;
        check_eq!(cx, <V as Zero>::is_zero(&V::mk(&z)), x.is_zero(), "{}<{}>::is_zero of zero with lane {} = {:?}", V::NAME, T::NAME, p, x);
    }
    cx.label(["bg-benign", "bg-next-lane-fails", "bg-prev-lane-fails"][bg as usize]);
    if st.focus_fail { cx.label("varied-lane-fails"); }
    if st.focus_ok { cx.label("varied-lane-ok"); }
    if st.other_fail { cx.label("other-lane-fails"); }
    if st.none { cx.label("checked-none"); }
    if st.some { cx.label("checked-some"); }
    if st.flag_set { cx.label("flag-set"); }
    if st.flag_clear { cx.label("flag-clear"); }
    if st.div0 { cx.label("div-by-zero"); }
    if st.panics { cx.label("unchecked-panic"); }
    cx.set_nontrivial(st.focus_fail && st.focus_ok);
    Ok(())
}

/// All lanes: idx = (p * 3 + bg) * 256 + x.
pub fn sweep_all<T: IntS, V: LiftV<T, N>, const N: usize>(idx: u64, cx: &mut Cx) -> CaseResult {
    let xi = idx % 256;
    let bg = (idx / 256) % BGS;
    let p = (idx / SWEEP_PER_LANE) as usize;
    sweep_core::<T, V, N>(p, bg, xi, cx)
}
/// Edge lanes only.
pub fn sweep_edge<T: IntS, V: LiftV<T, N>, const N: usize>(idx: u64, cx: &mut Cx) -> CaseResult {
    let xi = idx % 256;
    let bg = (idx / 256) % BGS;
    let p = edge_lanes(N)[(idx / SWEEP_PER_LANE) as usize];
    sweep_core::<T, V, N>(p, bg, xi, cx)
}

/// The 11 vector types with at most 16 lanes, all 50 lanes: idx = ((x * 3) + bg) * 50 + lane slot
/// (lane slots interleaved so that every worker's index range mixes cheap and expensive vector types).
pub fn sweep_small<T: IntS>(idx: u64, cx: &mut Cx) -> CaseResult {
    type CoreFn = fn(usize, u64, u64, &mut Cx) -> CaseResult;
    let t = vec_table!(sweep_core, T, CoreFn);
    let mut slot = (idx % 50) as usize;
    let rest = idx / 50;
    let (bg, xi) = (rest % BGS, rest / BGS);
    for (n, f) in t.iter().filter(|(n, _)| *n <= 16) {
        if slot < *n {
            return f(slot, bg, xi, cx);
        }
        slot -= *n;
    }
    fail!("harness: index {} out of range", idx)
}
pub const SWEEP_SMALL_TOTAL: u64 = 50 * SWEEP_PER_LANE;

// ---------------------------------------------------------------------------------------------
// The same object on both sides: op(&v, &v), and two distinct objects with equal contents

/// A lane value x for which op(x, x) fails (None / overflow flag) in the class, where one exists.
fn bad_alias<T: IntS>(cls: usize) -> T {
    let v = if T::SIGNED {
        match cls {
            C_DIV => 0,
            _ => T::MIN_I, // MIN+MIN, MIN*MIN, -MIN overflow; MIN-MIN = 0 and MIN.div_euclid(MIN) = 1 do not
        }
    } else {
        match cls {
            C_DIV => 0,
            C_NEG => 1,
            _ => T::MAX_I,
        }
    };
    T::w(v)
}

/// One case = (lane p, background); x sweeps all 256 values (8-bit types) inside, v = background with
/// lane p = x. Every binary lifted op as op(&v, &v) and as op(&v, &w) with w an equal vector.
fn alias_core<T: IntS, V: LiftV<T, N>, const N: usize>(p: usize, bg: u64, cx: &mut Cx) -> CaseResult {
    let bad = match bg {
        0 => None,
        1 => Some((p + 1) % N),
        _ => Some((p + N - 1) % N),
    };
    let mut arrs: Arrs<T, N> = backgrounds::<T, N>(None);
    for cls in 0..NCLS {
        if let Some(q) = bad {
            arrs[cls].0[q] = bad_alias::<T>(cls);
        }
        arrs[cls].1 = arrs[cls].0;
    }
    sample!(cx, "{}<{}> op(&v, &v) and op(&v, &equal): lane p={} sweeps all 256 values, background={}; class operands (add) v={:?}", V::NAME, T::NAME, p, ["benign", "next lane fails", "previous lane fails"][bg as usize], arrs[C_ADD].0);
    let mut st = St::default();
    for xi in 0..256u64 {
        let x = T::w(T::MIN_I + xi as i128);
        for cls in 0..NCLS {
            arrs[cls].0[p] = x;
            arrs[cls].1[p] = x;
        }
        ops_form::<T, V, N>(cx, &arrs, p, &mut st, true)?;
        ops_form::<T, V, N>(cx, &arrs, p, &mut st, false)?;
        let v = V::mk(&arrs[C_ADD].0);
        let w = V::mk(&arrs[C_ADD].1);
        check!(cx, v == v && !(v != v) && v == w && !(v != w), "{}<{}>: `==` / `!=` of {:?} with itself / an equal vector", V::NAME, T::NAME, arrs[C_ADD].0);
    }
    cx.label(["bg-benign", "bg-next-lane-fails", "bg-prev-lane-fails"][bg as usize]);
    cx.label("same-object");
    cx.label("equal-contents");
    if st.focus_fail { cx.label("varied-lane-fails"); }
    if st.focus_ok { cx.label("varied-lane-ok"); }
    if st.other_fail { cx.label("other-lane-fails"); }
    if st.none { cx.label("checked-none"); }
    if st.some { cx.label("checked-some"); }
    if st.flag_set { cx.label("flag-set"); }
    if st.flag_clear { cx.label("flag-clear"); }
    if st.div0 { cx.label("div-by-zero"); }
    if st.panics { cx.label("unchecked-panic"); }
    cx.set_nontrivial(st.focus_fail && st.focus_ok);
    Ok(())
}

/// All 13 vector types, all 146 lanes: idx = slot * 3 + bg.
pub fn alias_all<T: IntS>(idx: u64, cx: &mut Cx) -> CaseResult {
    type CoreFn = fn(usize, u64, &mut Cx) -> CaseResult;
    let t = vec_table!(alias_core, T, CoreFn);
    let bg = idx % BGS;
    let mut slot = (idx / BGS) as usize;
    for (n, f) in t.iter() {
        if slot < *n {
            return f(slot, bg, cx);
        }
        slot -= *n;
    }
    fail!("harness: index {} out of range", idx)
}
pub const ALIAS_TOTAL: u64 = 146 * BGS;

/// Sampled operands for the wider integer types: small benign lanes, 1..3 "hot" lanes with stratified values.
fn sampled_v<T: IntS, V: LiftV<T, N>, const N: usize>(t: &mut Tape, cx: &mut Cx) -> CaseResult {
    let mut a = [T::zero(); N];
    let mut b = [T::zero(); N];
    for i in 0..N {
        let (x, y) = benign_pair::<T>(C_ADD, i);
        a[i] = x;
        b[i] = y;
    }
    let hot = 1 + t.below(3);
    let mut focus = 0;
    for h in 0..hot {
        let p = t.below(N);
        if h == 0 { focus = p; }
        a[p] = T::strat(t);
        b[p] = match t.below(8) {
            0 => T::zero(),
            1 => T::zero().wrapping_sub(&T::one()),
            2 => T::one(),
            3 => T::w(T::MIN_I),
            _ => T::strat(t),
        };
    }
    // operand form: two objects (3/4) / the same object on both sides / two objects with equal contents
    let form = match t.below(8) { 0 => 1, 1 => 2, _ => 0 };
    if form != 0 {
        b = a;
    }
    sample!(cx, "{}<{}> a={:?} b={:?} operands: {}", V::NAME, T::NAME, a, b, ["two objects", "the same object", "equal contents"][form]);
    cx.label(["two-objects", "same-object", "equal-contents"][form]);
    let mut arrs: Arrs<T, N> = [(a, b); NCLS];
    // checked_neg of an unsigned value exists for 0 only: keep the non-hot lanes benign for that class too
    for i in 0..N {
        if a[i] == benign_pair::<T>(C_ADD, i).0 {
            arrs[C_NEG].0[i] = benign_pair::<T>(C_NEG, i).0;
        }
    }
    if form != 0 {
        arrs[C_NEG].1 = arrs[C_NEG].0;
    }
    let mut st = St::default();
    ops_form::<T, V, N>(cx, &arrs, focus, &mut st, form == 1)?;
    if form != 0 {
        let (va, vb) = (V::mk(&a), V::mk(&b));
        check!(cx, va == va && !(va != va) && va == vb && !(va != vb), "{}<{}>: `==` / `!=` of {:?} with itself / an equal vector", V::NAME, T::NAME, a);
    }
    check_eq!(cx, <V as Zero>::is_zero(&V::mk(&a)), a.iter().all(|x| x.is_zero()), "{}<{}>::is_zero({:?})", V::NAME, T::NAME, a);
    if st.focus_fail { cx.label("hot-lane-fails"); }
    if st.focus_ok { cx.label("hot-lane-ok"); }
    if st.other_fail { cx.label("other-lane-fails"); }
    if st.none { cx.label("checked-none"); }
    if st.some { cx.label("checked-some"); }
    if st.flag_set { cx.label("flag-set"); }
    if st.flag_clear { cx.label("flag-clear"); }
    if st.div0 { cx.label("div-by-zero"); }
    if st.panics { cx.label("unchecked-panic"); }
    cx.set_nontrivial(st.focus_fail || st.other_fail);
    Ok(())
}
pub fn sampled<T: IntS>(t: &mut Tape, cx: &mut Cx) -> CaseResult {
    let tab = vec_table!(sampled_v, T, TapeFn);
    let k = t.below(tab.len());
    (tab[k].1)(t, cx)
}

// ---------------------------------------------------------------------------------------------
// Zero / One / is_zero / is_one on vectors and matrices, Inv on float vectors

pub trait ZoS: Sc + Zero + One {
    fn specials() -> Vec<Self>;
}
macro_rules! zos_int { ($($t:ident)+) => { $(impl ZoS for $t {
    fn specials() -> Vec<Self> { vec![0, 1, 2, $t::MAX, $t::MIN, $t::MAX - 1, (0 as $t).wrapping_sub(1)] }
})+ } }
zos_int!(i8 u8 i32 u64);
macro_rules! zos_float { ($($t:ident)+) => { $(impl ZoS for $t {
    fn specials() -> Vec<Self> { vec![0.0, -0.0, 1.0, -1.0, 2.0, 3.0, 0.1, $t::MIN_POSITIVE, $t::MIN_POSITIVE / 4.0, -$t::MIN_POSITIVE / 4.0, $t::MAX, $t::MIN, $t::INFINITY, $t::NEG_INFINITY, $t::NAN, $t::EPSILON] }
})+ } }
zos_float!(f32 f64);

fn from_small<T: ZoS>(k: usize) -> T {
    let mut x = T::zero();
    for _ in 0..k { x = x + T::one(); }
    x
}

/// idx = (p * S + k) * 3 + bg
fn zo_vec<T: ZoS, V: VIo<T, N> + Zero + One, const N: usize>(idx: u64, cx: &mut Cx) -> CaseResult {
    let sp = T::specials();
    let bg = idx % 3;
    let k = ((idx / 3) % sp.len() as u64) as usize;
    let p = (idx / 3 / sp.len() as u64) as usize;
    let val = sp[k];
    let z = <V as Zero>::zero().rd();
    check!(cx, z.iter().all(|x| x.same(T::zero())), "{}<{}>: Zero::zero() = {:?}", V::NAME, T::NAME, z);
    let o = <V as One>::one().rd();
    check!(cx, o.iter().all(|x| x.same(T::one())), "{}<{}>: One::one() = {:?}", V::NAME, T::NAME, o);
    check!(cx, <V as Zero>::is_zero(&<V as Zero>::zero()), "{}<{}>: is_zero(zero())", V::NAME, T::NAME);
    check!(cx, <V as One>::is_one(&<V as One>::one()), "{}<{}>: is_one(one())", V::NAME, T::NAME);
    let mut a = [T::zero(); N];
    for i in 0..N {
        a[i] = match bg { 0 => T::zero(), 1 => T::one(), _ => from_small::<T>(2 + i % 7) };
    }
    a[p] = val;
    let v = V::mk(&a);
    sample!(cx, "{}<{}> {:?}", V::NAME, T::NAME, a);
    // scalar rule: the scalar's own is_zero / is_one, in every lane
    let all_zero = a.iter().all(|x| x.is_zero());
    let all_one = a.iter().all(|x| x.is_one());
    check_eq!(cx, <V as Zero>::is_zero(&v), all_zero, "{}<{}>::is_zero({:?})", V::NAME, T::NAME, a);
    check_eq!(cx, <V as One>::is_one(&v), all_one, "{}<{}>::is_one({:?})", V::NAME, T::NAME, a);
    // the in-place trait entry points (provided methods an impl may override), on an arbitrary receiver
    let mut w = V::mk(&a);
    <V as Zero>::set_zero(&mut w);
    check!(cx, w.rd().iter().all(|x| x.same(T::zero())), "{}<{}>: Zero::set_zero on {:?} left {:?}", V::NAME, T::NAME, a, w.rd());
    let mut w = V::mk(&a);
    <V as One>::set_one(&mut w);
    check!(cx, w.rd().iter().all(|x| x.same(T::one())), "{}<{}>: One::set_one on {:?} left {:?}", V::NAME, T::NAME, a, w.rd());
    cx.label(if all_zero { "all-zero" } else if bg == 0 { "one-lane-nonzero" } else { "nonzero" });
    if all_one { cx.label("all-one"); }
    cx.set_nontrivial(bg != 2);
    Ok(())
}
pub fn zo_total<T: ZoS>() -> u64 {
    146 * T::specials().len() as u64 * 3
}
pub fn zo_all<T: ZoS>(idx: u64, cx: &mut Cx) -> CaseResult {
    let s = T::specials().len() as u64;
    let t = vec_table!(zo_vec, T, IdxFn);
    let tab: Vec<(u64, IdxFn)> = t.iter().map(|(n, f)| (*n as u64 * s * 3, *f)).collect();
    dispatch(idx, &tab, cx)
}

/// Matrices: idx = (i * N + j) * S + k
pub fn zo_mat<T: ZoS + num_traits::MulAdd<T, T, Output = T>, M: MatN<T, N> + Zero + One + PartialEq, const N: usize>(idx: u64, cx: &mut Cx) -> CaseResult {
    let sp = T::specials();
    let k = (idx % sp.len() as u64) as usize;
    let ij = (idx / sp.len() as u64) as usize;
    let (i, j) = (ij / N, ij % N);
    let val = sp[k];
    let zero = [[T::zero(); N]; N];
    let mut id = zero;
    for d in 0..N { id[d][d] = T::one(); }
    let z = <M as Zero>::zero().to_arr();
    check!(cx, (0..N).all(|r| same_arr(&z[r], &zero[r])), "{}x{} matrix (col-major: {}) Zero::zero() = {:?}", N, N, M::COL_MAJOR, z);
    let o = <M as One>::one().to_arr();
    check!(cx, (0..N).all(|r| same_arr(&o[r], &id[r])), "{}x{} matrix (col-major: {}) One::one() = {:?}, want the identity", N, N, M::COL_MAJOR, o);
    check!(cx, <M as Zero>::is_zero(&M::from_arr(&zero)), "is_zero(all-zero matrix)");
    let mut e = zero;
    e[i][j] = val;
    sample!(cx, "{}x{} matrix col-major={} <{}> {:?}", N, N, M::COL_MAJOR, T::NAME, e);
    check_eq!(cx, <M as Zero>::is_zero(&M::from_arr(&e)), val.is_zero(), "{}x{} matrix (col-major: {}) is_zero({:?})", N, N, M::COL_MAJOR, e);
    // all elements non-zero except (i,j)
    let mut f = [[T::one(); N]; N];
    f[i][j] = T::zero();
    check!(cx, !<M as Zero>::is_zero(&M::from_arr(&f)), "{}x{} matrix (col-major: {}) is_zero({:?})", N, N, M::COL_MAJOR, f);
    // One::is_one: the identity with element (i,j) replaced is one iff the replacement equals the identity's element there
    let mut g = id;
    g[i][j] = val;
    check_eq!(cx, <M as One>::is_one(&M::from_arr(&g)), val == id[i][j], "{}x{} matrix (col-major: {}) is_one({:?})", N, N, M::COL_MAJOR, g);
    // in-place entry points (provided trait methods an impl may override) on receivers that are neither zero nor diagonal
    let mut h = [[T::zero(); N]; N];
    for r in 0..N { for c in 0..N { h[r][c] = from_small::<T>(2 + (r * N + c) % 7); } }
    h[i][j] = val;
    for (src, what) in [(&e, "single non-zero element"), (&f, "all ones but one"), (&g, "identity but one"), (&h, "dense")] {
        let mut m = M::from_arr(src);
        <M as Zero>::set_zero(&mut m);
        let got = m.to_arr();
        check!(cx, (0..N).all(|r| same_arr(&got[r], &zero[r])), "{}x{} matrix (col-major: {}) Zero::set_zero on {} {:?} left {:?}", N, N, M::COL_MAJOR, what, src, got);
        let mut m = M::from_arr(src);
        <M as One>::set_one(&mut m);
        let got = m.to_arr();
        check!(cx, (0..N).all(|r| same_arr(&got[r], &id[r])), "{}x{} matrix (col-major: {}) One::set_one on {} {:?} left {:?}, want the identity", N, N, M::COL_MAJOR, what, src, got);
    }
    cx.label(if val.is_zero() { "all-zero" } else { "one-element-nonzero" });
    cx.nontrivial();
    Ok(())
}

pub trait InvS: ZoS + Inv<Output = Self> {}
impl InvS for f32 {}
impl InvS for f64 {}

/// idx = p * S + k
fn inv_vec<T: InvS, V: VIo<T, N> + Inv<Output = V>, const N: usize>(idx: u64, cx: &mut Cx) -> CaseResult {
    let sp = T::specials();
    let k = (idx % sp.len() as u64) as usize;
    let p = (idx / sp.len() as u64) as usize;
    let mut a = [T::zero(); N];
    for i in 0..N { a[i] = from_small::<T>(1 + i % 9); }
    a[p] = sp[k];
    let mut want = a;
    for i in 0..N { want[i] = a[i].inv(); }
    sample!(cx, "{}<{}>::inv {:?}", V::NAME, T::NAME, a);
    let got = V::mk(&a).inv().rd();
    check!(cx, same_arr(&got, &want), "{}<{}>::inv({:?}) = {:?}, want {:?}", V::NAME, T::NAME, a, got, want);
    cx.nontrivial();
    Ok(())
}
pub fn inv_total<T: InvS>() -> u64 {
    146 * T::specials().len() as u64
}
pub fn inv_all<T: InvS>(idx: u64, cx: &mut Cx) -> CaseResult {
    let s = T::specials().len() as u64;
    let t = vec_table!(inv_vec, T, IdxFn);
    let tab: Vec<(u64, IdxFn)> = t.iter().map(|(n, f)| (*n as u64 * s, *f)).collect();
    dispatch(idx, &tab, cx)
}

// ---------------------------------------------------------------------------------------------
// Euclid on float vectors (num-traits implements Euclid for f32 / f64; CheckedEuclid is integer-only)

pub trait EuclidS: ZoS + Euclid {}
impl EuclidS for f32 {}
impl EuclidS for f64 {}

/// idx = p * S + k: lane p holds x = special k against every special y (two objects), and (x, x) as
/// the same object / an equal vector; the other lanes hold distinct ordinary values. Bit-exact per lane
/// (any NaN equals any NaN).
fn euclid_vec<T: EuclidS, V: VIo<T, N> + Euclid, const N: usize>(idx: u64, cx: &mut Cx) -> CaseResult {
    let sp = T::specials();
    let k = (idx % sp.len() as u64) as usize;
    let p = (idx / sp.len() as u64) as usize;
    let mut a = [T::zero(); N];
    let mut b = [T::zero(); N];
    for i in 0..N {
        a[i] = from_small::<T>(3 + i % 11);
        b[i] = from_small::<T>(1 + i % 4);
    }
    a[p] = sp[k];
    sample!(cx, "{}<{}>::div_euclid / rem_euclid, lane {} = {:?} against every special value; a={:?} b={:?}", V::NAME, T::NAME, p, sp[k], a, b);
    let rule = |a: &[T; N], b: &[T; N]| {
        let (mut d, mut r) = (*a, *a);
        for i in 0..N {
            d[i] = <T as Euclid>::div_euclid(&a[i], &b[i]);
            r[i] = <T as Euclid>::rem_euclid(&a[i], &b[i]);
        }
        (d, r)
    };
    for y in sp.iter() {
        b[p] = *y;
        let (wd, wr) = rule(&a, &b);
        let (va, vb) = (V::mk(&a), V::mk(&b));
        let gd = <V as Euclid>::div_euclid(&va, &vb).rd();
        let gr = <V as Euclid>::rem_euclid(&va, &vb).rd();
        check!(cx, same_arr(&gd, &wd), "{}<{}>::div_euclid a={:?} b={:?}: got {:?}, want {:?}", V::NAME, T::NAME, a, b, gd, wd);
        check!(cx, same_arr(&gr, &wr), "{}<{}>::rem_euclid a={:?} b={:?}: got {:?}, want {:?}", V::NAME, T::NAME, a, b, gr, wr);
    }
    // the same object on both sides, and an equal vector
    let (wd, wr) = rule(&a, &a);
    let (va, vc) = (V::mk(&a), V::mk(&a));
    for (r, form) in [(&va, "the same object"), (&vc, "equal contents")] {
        let gd = <V as Euclid>::div_euclid(&va, r).rd();
        let gr = <V as Euclid>::rem_euclid(&va, r).rd();
        check!(cx, same_arr(&gd, &wd), "{}<{}>::div_euclid(&v, &v) [{}] v={:?}: got {:?}, want {:?}", V::NAME, T::NAME, form, a, gd, wd);
        check!(cx, same_arr(&gr, &wr), "{}<{}>::rem_euclid(&v, &v) [{}] v={:?}: got {:?}, want {:?}", V::NAME, T::NAME, form, a, gr, wr);
    }
    cx.label("same-object");
    cx.label("two-objects");
    cx.nontrivial();
    Ok(())
}
pub fn euclid_total<T: EuclidS>() -> u64 {
    146 * T::specials().len() as u64
}
pub fn euclid_all<T: EuclidS>(idx: u64, cx: &mut Cx) -> CaseResult {
    let s = T::specials().len() as u64;
    let t = vec_table!(euclid_vec, T, IdxFn);
    let tab: Vec<(u64, IdxFn)> = t.iter().map(|(n, f)| (*n as u64 * s, *f)).collect();
    dispatch(idx, &tab, cx)
}
