fn main() {
    vkit::driver::main(c20::property())
}
