//! Every method — REQUIRED and PROVIDED (defaulted, possibly overridden) — of every num-traits trait
//! that vek lifts to its vector types, called THROUGH THE TRAIT (`<V as CheckedEuclid>::
//! checked_div_rem_euclid(&a, &b)`), for every integer element type (and the floats where the trait
//! applies), on all 13 vector types, with edge values at every lane position.
//!
//! The (kind, trait, method, operand class) rows live in ONE table per element family
//! (`int_table!` / `float_table!`); the calls and the `about` text of the checks are both expanded
//! from it, so a row cannot be listed without being run or run without being listed.
//!
//! Oracle: the scalar's own impl of the SAME trait method on each lane (for a provided method that is
//! num-traits' default body on the primitive). Checked forms: `None` exactly when some lane is `None`
//! and never a panic; overflow flag: the OR of the lane flags; unchecked Euclid forms: panic exactly
//! when some lane's scalar call panics; combined forms (`div_rem_euclid`, `checked_div_rem_euclid`):
//! both components, in the (quotient, remainder) order of the scalar.

use crate::io::*;
use crate::lifts::ZoS;
use crate::vec_table;
use num_traits::ops::checked::{CheckedAdd, CheckedDiv, CheckedMul, CheckedNeg, CheckedRem, CheckedSub};
use num_traits::ops::euclid::{CheckedEuclid, Euclid};
use num_traits::ops::inv::Inv;
use num_traits::ops::overflowing::{OverflowingAdd, OverflowingMul, OverflowingSub};
use num_traits::ops::saturating::{SaturatingAdd, SaturatingMul, SaturatingSub};
use num_traits::ops::wrapping::{WrappingAdd, WrappingMul, WrappingNeg, WrappingSub};
use num_traits::{One, Zero};
use vek::mat::repr_c::column_major as cm;
use vek::mat::repr_c::row_major as rm;
use vkit::*;

macro_rules! sc_more { ($($t:ident)+) => { $(impl Sc for $t { const NAME: &'static str = stringify!($t); fn same(self, o: Self) -> bool { self == o } })+ } }
sc_more!(i128 u128 isize usize);

// ---------------------------------------------------------------------------------------------
// operand classes: which lane pair is "offending" depends on the method at hand

pub const C_ADD: usize = 0;
pub const C_SUB: usize = 1;
pub const C_MUL: usize = 2;
pub const C_DIV: usize = 3; // checked div / rem / Euclid forms: the offending lane is None
pub const C_NEG: usize = 4;
pub const C_SAFE: usize = 5; // unchecked Euclid: the offending lane is extreme but does not panic
pub const C_PANIC: usize = 6; // unchecked Euclid: the offending lane panics
pub const C_ZERO: usize = 7; // all lanes zero; the offending lane is not
pub const C_ONE: usize = 8; // all lanes one; the offending lane is not
pub const NCLS: usize = 9;

pub type Arrs<T, const N: usize> = [([T; N], [T; N]); NCLS];

/// A scalar the table can be run on.
pub trait PNum: Sc + Zero + One {
    /// edge values the focus lane sweeps (all pairs)
    fn edges() -> Vec<Self>;
    /// lane `i` of a background in which no method of the class fails
    fn benign(cls: usize, i: usize) -> (Self, Self);
    /// a pair for which the class's methods fail (None / flag / panic / not zero / not one); two variants
    fn bad(cls: usize, variant: usize) -> (Self, Self);
    /// a value x for which the class's methods fail on (x, x), if there is one
    fn bad_alias(cls: usize, variant: usize) -> Option<Self>;
    /// may the scalar's unchecked Euclid methods panic on (a, b)?
    fn risky(a: &Self, b: &Self) -> bool;
}

macro_rules! pnum_signed { ($($t:ident)+) => { $(
    impl PNum for $t {
        fn edges() -> Vec<Self> { vec![0, 1, -1, 2, -2, 7, -7, $t::MIN, $t::MIN + 1, $t::MAX, $t::MAX - 1] }
        fn benign(cls: usize, i: usize) -> (Self, Self) {
            match cls {
                C_ZERO => (0, 0),
                C_ONE => (1, 1),
                _ => ([3, -4, 5, -6, 7][i % 5], [1, -2, 3][i % 3]),
            }
        }
        fn bad(cls: usize, variant: usize) -> (Self, Self) {
            match cls {
                C_ADD => ($t::MIN, -1),
                C_SUB => ($t::MIN, 1),
                C_MUL => ($t::MIN, -1),
                C_DIV | C_PANIC => if variant == 1 { ($t::MIN, -1) } else { (5, 0) },
                C_NEG => ($t::MIN, 1),
                C_ZERO => if variant == 1 { (1, 0) } else { ($t::MIN, 0) },
                C_ONE => if variant == 1 { (0, 1) } else { (2, 1) },
                _ => ($t::MIN, 1),
            }
        }
        fn bad_alias(cls: usize, variant: usize) -> Option<Self> {
            match cls {
                C_SUB => None, // x - x never fails
                C_DIV | C_PANIC => Some(0),
                C_ZERO => Some(if variant == 1 { 1 } else { $t::MIN }),
                C_ONE => Some(if variant == 1 { 0 } else { 2 }),
                _ => Some($t::MIN), // MIN+MIN, MIN*MIN, -MIN overflow; MIN.div_euclid(MIN) = 1 is extreme but fine
            }
        }
        fn risky(a: &Self, b: &Self) -> bool { *b == 0 || (*a == $t::MIN && *b == -1) }
    }
    impl PInt for $t { const SIGNED: bool = true; }
)+ } }
macro_rules! pnum_unsigned { ($($t:ident)+) => { $(
    impl PNum for $t {
        fn edges() -> Vec<Self> { vec![0, 1, 2, 3, 7, $t::MAX, $t::MAX - 1, $t::MAX / 2, $t::MAX / 2 + 1] }
        fn benign(cls: usize, i: usize) -> (Self, Self) {
            match cls {
                C_ZERO => (0, 0),
                C_ONE => (1, 1),
                // the only unsigned value whose checked negation exists
                C_NEG => (0, 1 + (i % 3) as $t),
                _ => (3 + (i % 5) as $t, 1 + (i % 3) as $t),
            }
        }
        fn bad(cls: usize, variant: usize) -> (Self, Self) {
            match cls {
                C_ADD => ($t::MAX, 1),
                C_SUB => (0, 1),
                C_MUL => ($t::MAX, 2),
                C_DIV | C_PANIC => if variant == 1 { ($t::MAX, 0) } else { (5, 0) },
                C_NEG => (1, 1),
                C_ZERO => if variant == 1 { (1, 0) } else { ($t::MAX, 0) },
                C_ONE => if variant == 1 { (0, 1) } else { (2, 1) },
                _ => ($t::MAX, 1),
            }
        }
        fn bad_alias(cls: usize, variant: usize) -> Option<Self> {
            match cls {
                C_SUB => None,
                C_DIV | C_PANIC => Some(0),
                C_NEG => Some(1),
                C_ZERO => Some(if variant == 1 { 1 } else { $t::MAX }),
                C_ONE => Some(if variant == 1 { 0 } else { 2 }),
                _ => Some($t::MAX),
            }
        }
        fn risky(_a: &Self, b: &Self) -> bool { *b == 0 }
    }
    impl PInt for $t { const SIGNED: bool = false; }
)+ } }
macro_rules! pnum_float { ($($t:ident)+) => { $(
    impl PNum for $t {
        fn edges() -> Vec<Self> {
            vec![0.0, -0.0, 1.0, -1.0, 0.1, 0.3, 3.0, -7.5, 1e20, $t::MIN_POSITIVE / 4.0, $t::MAX, $t::INFINITY, $t::NEG_INFINITY, $t::NAN]
        }
        fn benign(cls: usize, i: usize) -> (Self, Self) {
            match cls {
                C_ZERO => (0.0, 0.0),
                C_ONE => (1.0, 1.0),
                _ => ([3.5, -4.25, 5.0, -6.75, 7.125][i % 5], [1.0, -2.5, 3.0][i % 3]),
            }
        }
        // nothing "fails" on floats except is_zero / is_one; elsewhere the offending lane holds special values
        fn bad(cls: usize, variant: usize) -> (Self, Self) {
            match cls {
                C_ZERO => if variant == 1 { ($t::MIN_POSITIVE / 4.0, 0.0) } else { ($t::NAN, 0.0) },
                C_ONE => if variant == 1 { (1.0 + $t::EPSILON, 1.0) } else { ($t::NAN, 1.0) },
                _ => if variant == 1 { ($t::NAN, 1.0) } else { ($t::INFINITY, 0.0) },
            }
        }
        fn bad_alias(cls: usize, variant: usize) -> Option<Self> {
            Some(Self::bad(cls, variant).0)
        }
        fn risky(_a: &Self, _b: &Self) -> bool { false }
    }
    impl PFloat for $t {}
)+ } }

/// Integer scalars: every trait vek lifts.
pub trait PInt:
    PNum + Eq
    + CheckedAdd + CheckedSub + CheckedMul + CheckedDiv + CheckedRem + CheckedNeg
    + WrappingAdd + WrappingSub + WrappingMul + WrappingNeg
    + SaturatingAdd + SaturatingSub + SaturatingMul
    + OverflowingAdd + OverflowingSub + OverflowingMul
    + Euclid + CheckedEuclid
{
    const SIGNED: bool;
}
/// Float scalars: Zero, One, Inv, Euclid.
pub trait PFloat: PNum + Inv<Output = Self> + Euclid {}

pnum_signed!(i8 i16 i32 i64 i128 isize);
pnum_unsigned!(u8 u16 u32 u64 u128 usize);
pnum_float!(f32 f64);

/// Everything vek lifts for an integer vector.
pub trait PIntV<T: PInt, const N: usize>:
    VIo<T, N> + Zero + One
    + CheckedAdd + CheckedSub + CheckedMul + CheckedDiv + CheckedRem + CheckedNeg
    + WrappingAdd + WrappingSub + WrappingMul + WrappingNeg
    + SaturatingAdd + SaturatingSub + SaturatingMul
    + OverflowingAdd + OverflowingSub + OverflowingMul
    + Euclid + CheckedEuclid
{
}
impl<T: PInt, const N: usize, V> PIntV<T, N> for V where
    V: VIo<T, N> + Zero + One
        + CheckedAdd + CheckedSub + CheckedMul + CheckedDiv + CheckedRem + CheckedNeg
        + WrappingAdd + WrappingSub + WrappingMul + WrappingNeg
        + SaturatingAdd + SaturatingSub + SaturatingMul
        + OverflowingAdd + OverflowingSub + OverflowingMul
        + Euclid + CheckedEuclid
{
}
/// Everything vek lifts for a float vector.
pub trait PFloatV<T: PFloat, const N: usize>: VIo<T, N> + Zero + One + Inv<Output = Self> + Euclid {}
impl<T: PFloat, const N: usize, V> PFloatV<T, N> for V where V: VIo<T, N> + Zero + One + Inv<Output = V> + Euclid {}

/// Benign lanes everywhere; the class's offending pair at lane `bad` (if any).
pub fn backgrounds<T: PNum, const N: usize>(bad: Option<usize>, variant: usize) -> Arrs<T, N> {
    let mut out = [([T::zero(); N], [T::zero(); N]); NCLS];
    for cls in 0..NCLS {
        for i in 0..N {
            let (a, b) = T::benign(cls, i);
            out[cls].0[i] = a;
            out[cls].1[i] = b;
        }
        if let Some(q) = bad {
            let (a, b) = T::bad(cls, variant);
            out[cls].0[q] = a;
            out[cls].1[q] = b;
        }
    }
    out
}
/// The same with equal left and right operands (for `op(&v, &v)`).
pub fn backgrounds_alias<T: PNum, const N: usize>(bad: Option<usize>, variant: usize) -> Arrs<T, N> {
    let mut out = backgrounds::<T, N>(None, variant);
    for cls in 0..NCLS {
        if let (Some(q), Some(x)) = (bad, T::bad_alias(cls, variant)) {
            out[cls].0[q] = x;
        }
        out[cls].1 = out[cls].0;
    }
    out
}

#[derive(Default)]
pub struct St {
    pub focus_fail: bool,
    pub focus_ok: bool,
    pub other_fail: bool,
    pub none: bool,
    pub some: bool,
    pub pair_none: bool,
    pub pair_some: bool,
    pub flag_set: bool,
    pub flag_clear: bool,
    pub panics: bool,
    pub pair_panics: bool,
    pub pair_returns: bool,
    pub div0: bool,
    pub pred_true: bool,
    pub pred_false: bool,
}

pub struct Ctx<'a, T, const N: usize> {
    cx: &'a mut Cx,
    arrs: &'a Arrs<T, N>,
    /// the focus lane (statistics only)
    p: usize,
    st: &'a mut St,
    /// both operands of a binary method are THE SAME object
    same: bool,
    /// run the rows of class C_PANIC (kept to a share of the sweep: a panic costs microseconds)
    panic_rows: bool,
}
impl<'a, T, const N: usize> Ctx<'a, T, N> {
    pub fn new(cx: &'a mut Cx, arrs: &'a Arrs<T, N>, p: usize, st: &'a mut St, same: bool) -> Self {
        Ctx { cx, arrs, p, st, same, panic_rows: true }
    }
    fn form(&self) -> &'static str {
        if self.same { "op(&v, &v), the same object" } else { "two objects" }
    }
    fn lane(&mut self, i: usize, failed: bool) {
        if failed {
            if i == self.p { self.st.focus_fail = true; } else { self.st.other_fail = true; }
        } else if i == self.p {
            self.st.focus_ok = true;
        }
    }
}

// ---------------------------------------------------------------------------------------------
// one function per kind of method; `vop` is the vector's trait method, `sop` the scalar's

pub fn k_nullary<T: PNum, V: VIo<T, N>, const N: usize>(c: &mut Ctx<T, N>, name: &'static str, _cls: usize, vop: impl Fn() -> V, sop: impl Fn() -> T) -> CaseResult {
    let got = vop().rd();
    let want = [sop(); N];
    check!(c.cx, same_arr(&got, &want), "{}<{}> {}() = {:?}, want {:?} in every lane", V::NAME, T::NAME, name, got, want[0]);
    Ok(())
}

pub fn k_setter<T: PNum, V: VIo<T, N>, const N: usize>(c: &mut Ctx<T, N>, name: &'static str, cls: usize, vop: impl Fn(&mut V), sop: impl Fn(&mut T)) -> CaseResult {
    let arrs = c.arrs;
    let a = &arrs[cls].0;
    let mut w = V::mk(a);
    vop(&mut w);
    let mut want = *a;
    for i in 0..N { sop(&mut want[i]); }
    let got = w.rd();
    check!(c.cx, same_arr(&got, &want), "{}<{}> {} on {:?} left {:?}, want {:?}", V::NAME, T::NAME, name, a, got, want);
    Ok(())
}

pub fn k_pred<T: PNum, V: VIo<T, N>, const N: usize>(c: &mut Ctx<T, N>, name: &'static str, cls: usize, vop: impl Fn(&V) -> bool, sop: impl Fn(&T) -> bool) -> CaseResult {
    let arrs = c.arrs;
    let a = &arrs[cls].0;
    let mut want = true;
    for i in 0..N {
        let h = sop(&a[i]);
        want &= h;
        c.lane(i, !h);
    }
    if want { c.st.pred_true = true; } else { c.st.pred_false = true; }
    let got = vop(&V::mk(a));
    check_eq!(c.cx, got, want, "{}<{}> {}({:?}) (want: the scalar's {} holds in every lane)", V::NAME, T::NAME, name, a, name);
    Ok(())
}

pub fn k_checked_bin<T: PNum, V: VIo<T, N>, const N: usize>(c: &mut Ctx<T, N>, name: &'static str, cls: usize, vop: impl Fn(&V, &V) -> Option<V>, sop: impl Fn(&T, &T) -> Option<T>) -> CaseResult {
    let arrs = c.arrs;
    let (a, b) = &arrs[cls];
    let mut want = *a;
    let mut none_at: Option<usize> = None;
    for i in 0..N {
        match sop(&a[i], &b[i]) {
            Some(r) => { want[i] = r; c.lane(i, false); }
            None => { none_at = Some(i); c.lane(i, true); }
        }
    }
    let (va, vb) = (V::mk(a), V::mk(b));
    let rb: &V = if c.same { &va } else { &vb };
    let form = c.form();
    match vkit::catch(|| vop(&va, rb)) {
        Err(msg) => fail!("{}<{}> {} PANICKED ({}); a checked method returns None, never panics (scalar lanes: {}); a={:?} b={:?} [{}]", V::NAME, T::NAME, name, msg, match none_at { Some(i) => format!("None in lane {}", i), None => "all Some".into() }, a, b, form),
        Ok(None) => {
            c.st.none = true;
            check!(c.cx, none_at.is_some(), "{}<{}> {}: lifted result is None but the scalar method is Some in every lane; a={:?} b={:?} [{}]", V::NAME, T::NAME, name, a, b, form);
        }
        Ok(Some(g)) => {
            c.st.some = true;
            check!(c.cx, none_at.is_none(), "{}<{}> {}: lifted result is Some({:?}) but the scalar method is None in lane {}; a={:?} b={:?} [{}]", V::NAME, T::NAME, name, g, none_at.unwrap(), a, b, form);
            let got = g.rd();
            check!(c.cx, same_arr(&got, &want), "{}<{}> {} a={:?} b={:?} [{}]: got {:?}, want {:?}", V::NAME, T::NAME, name, a, b, form, got, want);
        }
    }
    Ok(())
}

pub fn k_checked_un<T: PNum, V: VIo<T, N>, const N: usize>(c: &mut Ctx<T, N>, name: &'static str, cls: usize, vop: impl Fn(&V) -> Option<V>, sop: impl Fn(&T) -> Option<T>) -> CaseResult {
    let arrs = c.arrs;
    let a = &arrs[cls].0;
    let mut want = *a;
    let mut none_at: Option<usize> = None;
    for i in 0..N {
        match sop(&a[i]) {
            Some(r) => { want[i] = r; c.lane(i, false); }
            None => { none_at = Some(i); c.lane(i, true); }
        }
    }
    let va = V::mk(a);
    match vkit::catch(|| vop(&va)) {
        Err(msg) => fail!("{}<{}> {} PANICKED ({}); a checked method returns None, never panics; a={:?}", V::NAME, T::NAME, name, msg, a),
        Ok(None) => {
            c.st.none = true;
            check!(c.cx, none_at.is_some(), "{}<{}> {}: lifted result is None but the scalar method is Some in every lane; a={:?}", V::NAME, T::NAME, name, a);
        }
        Ok(Some(g)) => {
            c.st.some = true;
            check!(c.cx, none_at.is_none(), "{}<{}> {}: lifted result is Some({:?}) but the scalar method is None in lane {}; a={:?}", V::NAME, T::NAME, name, g, none_at.unwrap(), a);
            let got = g.rd();
            check!(c.cx, same_arr(&got, &want), "{}<{}> {} a={:?}: got {:?}, want {:?}", V::NAME, T::NAME, name, a, got, want);
        }
    }
    Ok(())
}

/// (quotient, remainder) in one call, checked
pub fn k_checked_pair<T: PNum, V: VIo<T, N>, const N: usize>(c: &mut Ctx<T, N>, name: &'static str, cls: usize, vop: impl Fn(&V, &V) -> Option<(V, V)>, sop: impl Fn(&T, &T) -> Option<(T, T)>) -> CaseResult {
    let arrs = c.arrs;
    let (a, b) = &arrs[cls];
    let (mut want0, mut want1) = (*a, *a);
    let mut none_at: Option<usize> = None;
    for i in 0..N {
        match sop(&a[i], &b[i]) {
            Some((q, r)) => { want0[i] = q; want1[i] = r; c.lane(i, false); }
            None => { none_at = Some(i); c.lane(i, true); }
        }
    }
    let (va, vb) = (V::mk(a), V::mk(b));
    let rb: &V = if c.same { &va } else { &vb };
    let form = c.form();
    match vkit::catch(|| vop(&va, rb)) {
        Err(msg) => fail!("{}<{}> {} PANICKED ({}); a checked method returns None, never panics (scalar lanes: {}); a={:?} b={:?} [{}]", V::NAME, T::NAME, name, msg, match none_at { Some(i) => format!("None in lane {}", i), None => "all Some".into() }, a, b, form),
        Ok(None) => {
            c.st.pair_none = true;
            check!(c.cx, none_at.is_some(), "{}<{}> {}: lifted result is None but the scalar method is Some in every lane; a={:?} b={:?} [{}]", V::NAME, T::NAME, name, a, b, form);
        }
        Ok(Some((g0, g1))) => {
            c.st.pair_some = true;
            check!(c.cx, none_at.is_none(), "{}<{}> {}: lifted result is Some(({:?}, {:?})) but the scalar method is None in lane {}; a={:?} b={:?} [{}]", V::NAME, T::NAME, name, g0, g1, none_at.unwrap(), a, b, form);
            let (got0, got1) = (g0.rd(), g1.rd());
            check!(c.cx, same_arr(&got0, &want0), "{}<{}> {} a={:?} b={:?} [{}]: first component (quotient) {:?}, want {:?}; second {:?}, want {:?}", V::NAME, T::NAME, name, a, b, form, got0, want0, got1, want1);
            check!(c.cx, same_arr(&got1, &want1), "{}<{}> {} a={:?} b={:?} [{}]: second component (remainder) {:?}, want {:?}", V::NAME, T::NAME, name, a, b, form, got1, want1);
        }
    }
    Ok(())
}

pub fn k_plain_bin<T: PNum, V: VIo<T, N>, const N: usize>(c: &mut Ctx<T, N>, name: &'static str, cls: usize, vop: impl Fn(&V, &V) -> V, sop: impl Fn(&T, &T) -> T) -> CaseResult {
    let arrs = c.arrs;
    let (a, b) = &arrs[cls];
    let mut want = *a;
    for i in 0..N { want[i] = sop(&a[i], &b[i]); }
    let (va, vb) = (V::mk(a), V::mk(b));
    let rb: &V = if c.same { &va } else { &vb };
    let got = vop(&va, rb).rd();
    check!(c.cx, same_arr(&got, &want), "{}<{}> {} a={:?} b={:?} [{}]: got {:?}, want {:?}", V::NAME, T::NAME, name, a, b, c.form(), got, want);
    Ok(())
}

pub fn k_plain_un<T: PNum, V: VIo<T, N>, const N: usize>(c: &mut Ctx<T, N>, name: &'static str, cls: usize, vop: impl Fn(&V) -> V, sop: impl Fn(&T) -> T) -> CaseResult {
    let arrs = c.arrs;
    let a = &arrs[cls].0;
    let mut want = *a;
    for i in 0..N { want[i] = sop(&a[i]); }
    let got = vop(&V::mk(a)).rd();
    check!(c.cx, same_arr(&got, &want), "{}<{}> {} a={:?}: got {:?}, want {:?}", V::NAME, T::NAME, name, a, got, want);
    Ok(())
}

pub fn k_overflowing_bin<T: PNum, V: VIo<T, N>, const N: usize>(c: &mut Ctx<T, N>, name: &'static str, cls: usize, vop: impl Fn(&V, &V) -> (V, bool), sop: impl Fn(&T, &T) -> (T, bool)) -> CaseResult {
    let arrs = c.arrs;
    let (a, b) = &arrs[cls];
    let mut want = *a;
    let mut any = false;
    for i in 0..N {
        let (r, o) = sop(&a[i], &b[i]);
        want[i] = r;
        any |= o;
        c.lane(i, o);
    }
    if any { c.st.flag_set = true; } else { c.st.flag_clear = true; }
    let (va, vb) = (V::mk(a), V::mk(b));
    let rb: &V = if c.same { &va } else { &vb };
    let (g, flag) = vop(&va, rb);
    let got = g.rd();
    check!(c.cx, same_arr(&got, &want), "{}<{}> {} lanes, a={:?} b={:?} [{}]: got {:?}, want {:?}", V::NAME, T::NAME, name, a, b, c.form(), got, want);
    check_eq!(c.cx, flag, any, "{}<{}> {} overflow flag, a={:?} b={:?} [{}]", V::NAME, T::NAME, name, a, b, c.form());
    Ok(())
}

/// Unchecked; panics exactly when some lane's scalar call panics.
pub fn k_panicky_bin<T: PNum, V: VIo<T, N>, const N: usize>(c: &mut Ctx<T, N>, name: &'static str, cls: usize, vop: impl Fn(&V, &V) -> V, sop: impl Fn(&T, &T) -> T) -> CaseResult {
    if cls == C_PANIC && !c.panic_rows { return Ok(()); }
    let arrs = c.arrs;
    let (a, b) = &arrs[cls];
    let mut want = *a;
    let mut panic_at: Option<usize> = None;
    for i in 0..N {
        if T::risky(&a[i], &b[i]) {
            if b[i].is_zero() { c.st.div0 = true; }
            match vkit::catch(|| sop(&a[i], &b[i])) {
                Ok(r) => { want[i] = r; c.lane(i, false); }
                Err(_) => { panic_at = Some(i); c.lane(i, true); }
            }
        } else {
            want[i] = sop(&a[i], &b[i]);
            c.lane(i, false);
        }
    }
    let (va, vb) = (V::mk(a), V::mk(b));
    let rb: &V = if c.same { &va } else { &vb };
    let form = c.form();
    match vkit::catch(|| vop(&va, rb)) {
        Err(msg) => {
            c.st.panics = true;
            check!(c.cx, panic_at.is_some(), "{}<{}> {} panicked ({}) but no lane's scalar method does; a={:?} b={:?} [{}]", V::NAME, T::NAME, name, msg, a, b, form);
        }
        Ok(g) => {
            check!(c.cx, panic_at.is_none(), "{}<{}> {} returned {:?} but the scalar method panics in lane {}; a={:?} b={:?} [{}]", V::NAME, T::NAME, name, g, panic_at.unwrap(), a, b, form);
            let got = g.rd();
            check!(c.cx, same_arr(&got, &want), "{}<{}> {} a={:?} b={:?} [{}]: got {:?}, want {:?}", V::NAME, T::NAME, name, a, b, form, got, want);
        }
    }
    Ok(())
}

/// (quotient, remainder) in one call, unchecked.
pub fn k_panicky_pair<T: PNum, V: VIo<T, N>, const N: usize>(c: &mut Ctx<T, N>, name: &'static str, cls: usize, vop: impl Fn(&V, &V) -> (V, V), sop: impl Fn(&T, &T) -> (T, T)) -> CaseResult {
    if cls == C_PANIC && !c.panic_rows { return Ok(()); }
    let arrs = c.arrs;
    let (a, b) = &arrs[cls];
    let (mut want0, mut want1) = (*a, *a);
    let mut panic_at: Option<usize> = None;
    for i in 0..N {
        if T::risky(&a[i], &b[i]) {
            if b[i].is_zero() { c.st.div0 = true; }
            match vkit::catch(|| sop(&a[i], &b[i])) {
                Ok((q, r)) => { want0[i] = q; want1[i] = r; c.lane(i, false); }
                Err(_) => { panic_at = Some(i); c.lane(i, true); }
            }
        } else {
            let (q, r) = sop(&a[i], &b[i]);
            want0[i] = q;
            want1[i] = r;
            c.lane(i, false);
        }
    }
    let (va, vb) = (V::mk(a), V::mk(b));
    let rb: &V = if c.same { &va } else { &vb };
    let form = c.form();
    match vkit::catch(|| vop(&va, rb)) {
        Err(msg) => {
            c.st.pair_panics = true;
            check!(c.cx, panic_at.is_some(), "{}<{}> {} panicked ({}) but no lane's scalar method does; a={:?} b={:?} [{}]", V::NAME, T::NAME, name, msg, a, b, form);
        }
        Ok((g0, g1)) => {
            c.st.pair_returns = true;
            check!(c.cx, panic_at.is_none(), "{}<{}> {} returned ({:?}, {:?}) but the scalar method panics in lane {}; a={:?} b={:?} [{}]", V::NAME, T::NAME, name, g0, g1, panic_at.unwrap(), a, b, form);
            let (got0, got1) = (g0.rd(), g1.rd());
            check!(c.cx, same_arr(&got0, &want0), "{}<{}> {} a={:?} b={:?} [{}]: first component (quotient) {:?}, want {:?}; second {:?}, want {:?}", V::NAME, T::NAME, name, a, b, form, got0, want0, got1, want1);
            check!(c.cx, same_arr(&got1, &want1), "{}<{}> {} a={:?} b={:?} [{}]: second component (remainder) {:?}, want {:?}", V::NAME, T::NAME, name, a, b, form, got1, want1);
        }
    }
    Ok(())
}

// ---------------------------------------------------------------------------------------------
// THE TABLES: kind, trait, method, operand class. `T`, `V`, `N` are the generics at the expansion site.

macro_rules! int_table {
    ($cb:ident $($pre:tt)*) => { $cb! { $($pre)*
        nullary Zero zero C_ZERO;
        setter Zero set_zero C_ADD;
        pred Zero is_zero C_ZERO;
        nullary One one C_ONE;
        setter One set_one C_ADD;
        pred One is_one C_ONE;
        checked_bin CheckedAdd checked_add C_ADD;
        checked_bin CheckedSub checked_sub C_SUB;
        checked_bin CheckedMul checked_mul C_MUL;
        checked_bin CheckedDiv checked_div C_DIV;
        checked_bin CheckedRem checked_rem C_DIV;
        checked_un CheckedNeg checked_neg C_NEG;
        plain_bin WrappingAdd wrapping_add C_ADD;
        plain_bin WrappingSub wrapping_sub C_SUB;
        plain_bin WrappingMul wrapping_mul C_MUL;
        plain_un WrappingNeg wrapping_neg C_NEG;
        plain_bin SaturatingAdd saturating_add C_ADD;
        plain_bin SaturatingSub saturating_sub C_SUB;
        plain_bin SaturatingMul saturating_mul C_MUL;
        overflowing_bin OverflowingAdd overflowing_add C_ADD;
        overflowing_bin OverflowingSub overflowing_sub C_SUB;
        overflowing_bin OverflowingMul overflowing_mul C_MUL;
        panicky_bin Euclid div_euclid C_SAFE;
        panicky_bin Euclid rem_euclid C_SAFE;
        panicky_pair Euclid div_rem_euclid C_SAFE;
        panicky_bin Euclid div_euclid C_PANIC;
        panicky_bin Euclid rem_euclid C_PANIC;
        panicky_pair Euclid div_rem_euclid C_PANIC;
        checked_bin CheckedEuclid checked_div_euclid C_DIV;
        checked_bin CheckedEuclid checked_rem_euclid C_DIV;
        checked_pair CheckedEuclid checked_div_rem_euclid C_DIV;
    } };
}
macro_rules! float_table {
    ($cb:ident $($pre:tt)*) => { $cb! { $($pre)*
        nullary Zero zero C_ZERO;
        setter Zero set_zero C_ADD;
        pred Zero is_zero C_ZERO;
        nullary One one C_ONE;
        setter One set_one C_ADD;
        pred One is_one C_ONE;
        owned_un Inv inv C_ADD;
        panicky_bin Euclid div_euclid C_SAFE;
        panicky_bin Euclid rem_euclid C_SAFE;
        panicky_pair Euclid div_rem_euclid C_SAFE;
    } };
}

macro_rules! nm { ($Tr:ident, $m:ident) => { concat!(stringify!($Tr), "::", stringify!($m)) }; }

macro_rules! row {
    ($c:ident nullary $Tr:ident $m:ident $cls:ident) => { k_nullary::<T, V, N>(&mut $c, nm!($Tr, $m), $cls, || <V as $Tr>::$m(), || <T as $Tr>::$m())? };
    ($c:ident setter $Tr:ident $m:ident $cls:ident) => { k_setter::<T, V, N>(&mut $c, nm!($Tr, $m), $cls, |x| <V as $Tr>::$m(x), |x| <T as $Tr>::$m(x))? };
    ($c:ident pred $Tr:ident $m:ident $cls:ident) => { k_pred::<T, V, N>(&mut $c, nm!($Tr, $m), $cls, |x| <V as $Tr>::$m(x), |x| <T as $Tr>::$m(x))? };
    ($c:ident checked_bin $Tr:ident $m:ident $cls:ident) => { k_checked_bin::<T, V, N>(&mut $c, nm!($Tr, $m), $cls, |x, y| <V as $Tr>::$m(x, y), |x, y| <T as $Tr>::$m(x, y))? };
    ($c:ident checked_un $Tr:ident $m:ident $cls:ident) => { k_checked_un::<T, V, N>(&mut $c, nm!($Tr, $m), $cls, |x| <V as $Tr>::$m(x), |x| <T as $Tr>::$m(x))? };
    ($c:ident checked_pair $Tr:ident $m:ident $cls:ident) => { k_checked_pair::<T, V, N>(&mut $c, nm!($Tr, $m), $cls, |x, y| <V as $Tr>::$m(x, y), |x, y| <T as $Tr>::$m(x, y))? };
    ($c:ident plain_bin $Tr:ident $m:ident $cls:ident) => { k_plain_bin::<T, V, N>(&mut $c, nm!($Tr, $m), $cls, |x, y| <V as $Tr>::$m(x, y), |x, y| <T as $Tr>::$m(x, y))? };
    ($c:ident plain_un $Tr:ident $m:ident $cls:ident) => { k_plain_un::<T, V, N>(&mut $c, nm!($Tr, $m), $cls, |x| <V as $Tr>::$m(x), |x| <T as $Tr>::$m(x))? };
    ($c:ident owned_un $Tr:ident $m:ident $cls:ident) => { k_plain_un::<T, V, N>(&mut $c, nm!($Tr, $m), $cls, |x| <V as $Tr>::$m(*x), |x| <T as $Tr>::$m(*x))? };
    ($c:ident overflowing_bin $Tr:ident $m:ident $cls:ident) => { k_overflowing_bin::<T, V, N>(&mut $c, nm!($Tr, $m), $cls, |x, y| <V as $Tr>::$m(x, y), |x, y| <T as $Tr>::$m(x, y))? };
    ($c:ident panicky_bin $Tr:ident $m:ident $cls:ident) => { k_panicky_bin::<T, V, N>(&mut $c, nm!($Tr, $m), $cls, |x, y| <V as $Tr>::$m(x, y), |x, y| <T as $Tr>::$m(x, y))? };
    ($c:ident panicky_pair $Tr:ident $m:ident $cls:ident) => { k_panicky_pair::<T, V, N>(&mut $c, nm!($Tr, $m), $cls, |x, y| <V as $Tr>::$m(x, y), |x, y| <T as $Tr>::$m(x, y))? };
}
macro_rules! run_rows {
    ($c:ident; $($kind:ident $Tr:ident $m:ident $cls:ident;)+) => { $( row!($c $kind $Tr $m $cls); )+ };
}
/// `about_rows!{ "prefix"; "suffix"; rows }` — the about text with the (trait, method) list of the table.
macro_rules! about_rows {
    ($pre:literal; $suf:literal; $($kind:ident $Tr:ident $m:ident $cls:ident;)+) => {
        concat!($pre, $(stringify!($Tr), "::", stringify!($m), " [", stringify!($cls), "], ",)+ $suf)
    };
}

pub const ABOUT_INT: &str = int_table!(about_rows
    "EVERY method, required and provided (defaulted: Zero::set_zero, One::set_one, One::is_one, Euclid::div_rem_euclid, CheckedEuclid::checked_div_rem_euclid), of every num-traits trait vek lifts to vectors, called through the trait (<V as Tr>::m) and judged by the scalar's own <T as Tr>::m per lane. (trait::method [operand class]) rows, all expanded from one table: ";
    "— one case = (vector type of the 13, lane p, background: benign / the next / the previous lane offends on its own for the row's class (MIN op -1, MAX+1, x/0, MIN/-1, non-zero, ...)); inside, lane p sweeps the pairs of edge values (signed: 0 1 -1 2 -2 7 -7 MIN MIN+1 MAX MAX-1; unsigned: 0 1 2 3 7 MAX MAX-1 MAX/2 MAX/2+1) as two objects — benign background: ALL pairs (inner lanes of Vec32/Vec64: the diagonal + a third of the pairs, rotating with the lane; their lanes 0, 1, N/2, N-2, N-1: all); offending background: the diagonal and the rows / columns of 0 and 1 — and every (x, x) as the same object op(&v, &v). Checked rows: None iff some lane None, a panic is a failure; pair rows: (quotient, remainder) both per lane; overflowing rows: flag iff some lane; unchecked Euclid rows: panic iff some lane's scalar call panics ([C_PANIC] rows: the offending lane panics; run on the diagonal of the sweep)";
);
pub const ABOUT_FLOAT: &str = float_table!(about_rows
    "every method, required and provided, of the num-traits traits vek lifts that floats implement, called through the trait and judged by the scalar's own method per lane, bit for bit (any NaN = any NaN). (trait::method [operand class]) rows: ";
    "— one case = (vector type of the 13, lane p, background: ordinary / the next / the previous lane special (NaN, inf, subnormal, 1+eps)); lane p sweeps the pairs of 0 -0 1 -1 0.1 0.3 3 -7.5 1e20 subnormal MAX inf -inf NaN (inexact quotients, huge quotients, specials) as two objects (ordinary background: all pairs, thinned on the inner lanes of Vec32/Vec64 as for the integers; special background: the diagonal and the rows / columns of 0 and -0) and every (x, x) as the same object";
);

// ---------------------------------------------------------------------------------------------
// cases

pub fn labels(cx: &mut Cx, bg: u64, st: &St) {
    cx.label(["bg-benign", "bg-next-lane-offends", "bg-prev-lane-offends"][bg as usize]);
    cx.label("two-objects");
    cx.label("same-object");
    if st.focus_fail { cx.label("varied-lane-fails"); }
    if st.focus_ok { cx.label("varied-lane-ok"); }
    if st.other_fail { cx.label("other-lane-fails"); }
    if st.none { cx.label("checked-none"); }
    if st.some { cx.label("checked-some"); }
    if st.pair_none { cx.label("checked-pair-none"); }
    if st.pair_some { cx.label("checked-pair-some"); }
    if st.flag_set { cx.label("flag-set"); }
    if st.flag_clear { cx.label("flag-clear"); }
    if st.div0 { cx.label("div-by-zero-lane"); }
    if st.panics { cx.label("unchecked-panic"); }
    if st.pair_panics { cx.label("unchecked-pair-panic"); }
    if st.pair_returns { cx.label("unchecked-pair-returns"); }
    if st.pred_true { cx.label("predicate-true"); }
    if st.pred_false { cx.label("predicate-false"); }
}

fn bad_lane(p: usize, bg: u64, n: usize) -> Option<usize> {
    match bg {
        0 => None,
        1 => Some((p + 1) % n),
        _ => Some((p + n - 1) % n),
    }
}

/// Which pairs (edge xi, edge yi) the focus lane visits (fixed work, ~2 s budget of the quick tier):
/// benign background: ALL pairs — on the vectors of up to 16 lanes and on the lanes {0, 1, N/2, N-2, N-1}
/// of Vec32 / Vec64; on their inner lanes the diagonal plus a third of the pairs, rotating with the lane.
/// Offending background (every checked row is None whatever lane p holds): the diagonal, the rows and
/// columns of the edge values 0 and 1, thinned the same way on the inner lanes of the wide vectors.
fn visit(n: usize, p: usize, bg: u64, xi: usize, yi: usize, ne: usize) -> bool {
    if xi == yi { return true; }
    if bg != 0 && !(xi <= 1 || yi <= 1) { return false; }
    if n >= 32 && ![0, 1, n / 2, n - 2, n - 1].contains(&p) && (xi * ne + yi + p) % 3 != 0 { return false; }
    true
}

/// One case = (vector type, lane p, background); lane p sweeps pairs of edge values inside (see `visit`).
fn int_core<T: PInt, V: PIntV<T, N>, const N: usize>(p: usize, bg: u64, cx: &mut Cx) -> CaseResult {
    let e = T::edges();
    let bad = bad_lane(p, bg, N);
    let mut st = St::default();
    // two objects
    let mut arrs: Arrs<T, N> = backgrounds::<T, N>(bad, bg as usize);
    sample!(cx, "{}<{}> lane p={} sweeps pairs of {:?}; background={} (offending lane {:?}); class operands (div) A={:?} B={:?}", V::NAME, T::NAME, p, e, ["benign", "next lane offends", "previous lane offends"][bg as usize], bad, arrs[C_DIV].0, arrs[C_DIV].1);
    for (xi, &x) in e.iter().enumerate() {
        for (yi, &y) in e.iter().enumerate() {
            if !visit(N, p, bg, xi, yi, e.len()) { continue; }
            for cls in 0..NCLS {
                arrs[cls].0[p] = x;
                arrs[cls].1[p] = y;
            }
            let mut c = Ctx { cx: &mut *cx, arrs: &arrs, p, st: &mut st, same: false, panic_rows: bad.is_none() || xi == yi };
            int_table!(run_rows c;);
        }
    }
    // harness self-check: an offending background makes every checked row None and every flag set
    if bad.is_some() {
        check!(cx, !st.some && !st.pair_some && !st.flag_clear && !st.pred_true, "harness: offending background did not offend");
    }
    // the same object on both sides
    let mut arrs: Arrs<T, N> = backgrounds_alias::<T, N>(bad, bg as usize);
    for &x in e.iter() {
        for cls in 0..NCLS {
            arrs[cls].0[p] = x;
            arrs[cls].1[p] = x;
        }
        let mut c = Ctx { cx: &mut *cx, arrs: &arrs, p, st: &mut st, same: true, panic_rows: true };
        int_table!(run_rows c;);
    }
    labels(cx, bg, &st);
    cx.label(V::NAME);
    cx.label(if T::SIGNED { "signed" } else { "unsigned" });
    cx.set_nontrivial(st.focus_fail && st.focus_ok && st.pair_none && (bad.is_some() || st.pair_some));
    Ok(())
}

fn float_core<T: PFloat, V: PFloatV<T, N>, const N: usize>(p: usize, bg: u64, cx: &mut Cx) -> CaseResult {
    let e = T::edges();
    let bad = bad_lane(p, bg, N);
    let mut st = St::default();
    let mut arrs: Arrs<T, N> = backgrounds::<T, N>(bad, bg as usize);
    sample!(cx, "{}<{}> lane p={} sweeps pairs of {:?}; background={} (special lane {:?}); class operands (euclid) A={:?} B={:?}", V::NAME, T::NAME, p, e, ["ordinary", "next lane special", "previous lane special"][bg as usize], bad, arrs[C_SAFE].0, arrs[C_SAFE].1);
    for (xi, &x) in e.iter().enumerate() {
        for (yi, &y) in e.iter().enumerate() {
            if !visit(N, p, bg, xi, yi, e.len()) { continue; }
            for cls in 0..NCLS {
                arrs[cls].0[p] = x;
                arrs[cls].1[p] = y;
            }
            let mut c = Ctx { cx: &mut *cx, arrs: &arrs, p, st: &mut st, same: false, panic_rows: false };
            float_table!(run_rows c;);
        }
    }
    let mut arrs: Arrs<T, N> = backgrounds_alias::<T, N>(bad, bg as usize);
    for &x in e.iter() {
        for cls in 0..NCLS {
            arrs[cls].0[p] = x;
            arrs[cls].1[p] = x;
        }
        let mut c = Ctx { cx: &mut *cx, arrs: &arrs, p, st: &mut st, same: true, panic_rows: false };
        float_table!(run_rows c;);
    }
    labels(cx, bg, &st);
    cx.label(V::NAME);
    cx.set_nontrivial(st.pair_returns && st.pred_false);
    Ok(())
}

/// All 13 vector types, all 146 lanes x 3 backgrounds. The lane slots are scattered over the index
/// range (x 37 mod 146) so that every worker's share mixes cheap and expensive vector types.
pub const TOTAL: u64 = 146 * 3;
pub type CoreFn = fn(usize, u64, &mut Cx) -> CaseResult;
pub fn spread(idx: u64, t: &[(usize, CoreFn)], cx: &mut Cx) -> CaseResult {
    let bg = idx % 3;
    let mut slot = ((idx / 3) * 37 % 146) as usize;
    for (n, f) in t.iter() {
        if slot < *n {
            return f(slot, bg, cx);
        }
        slot -= *n;
    }
    fail!("harness: index {} out of range", idx)
}
pub fn int_all<T: PInt>(idx: u64, cx: &mut Cx) -> CaseResult {
    let t = vec_table!(int_core, T, CoreFn);
    spread(idx, &t, cx)
}
pub fn float_all<T: PFloat>(idx: u64, cx: &mut Cx) -> CaseResult {
    let t = vec_table!(float_core, T, CoreFn);
    spread(idx, &t, cx)
}

// ---------------------------------------------------------------------------------------------
// matrices: Zero / One (zero, set_zero, is_zero, one, set_one, is_one) are the only num-traits traits
// lifted; `lifts::zo_mat` calls all six through the trait. Here: the element types it was not run on.

macro_rules! zos_more { ($($t:ident)+) => { $(impl ZoS for $t {
    fn specials() -> Vec<Self> { vec![0, 1, 2, $t::MAX, $t::MIN, $t::MAX - 1, (0 as $t).wrapping_sub(1)] }
})+ } }
zos_more!(i16 i64 i128 isize u16 u32 u128 usize);

pub const MAT_MORE_TOTAL: u64 = 8 * 58 * 7;
pub fn zo_mats_more(idx: u64, cx: &mut Cx) -> CaseResult {
    fn one<T: ZoS + num_traits::MulAdd<T, T, Output = T>>(idx: u64, cx: &mut Cx) -> CaseResult {
        let s = T::specials().len() as u64;
        let tab: [(u64, IdxFn); 6] = [
            (4 * s, crate::lifts::zo_mat::<T, rm::Mat2<T>, 2>),
            (9 * s, crate::lifts::zo_mat::<T, rm::Mat3<T>, 3>),
            (16 * s, crate::lifts::zo_mat::<T, rm::Mat4<T>, 4>),
            (4 * s, crate::lifts::zo_mat::<T, cm::Mat2<T>, 2>),
            (9 * s, crate::lifts::zo_mat::<T, cm::Mat3<T>, 3>),
            (16 * s, crate::lifts::zo_mat::<T, cm::Mat4<T>, 4>),
        ];
        cx.label(T::NAME);
        dispatch(idx, &tab, cx)
    }
    let tab: [(u64, IdxFn); 8] = [
        (58 * 7, one::<i16>), (58 * 7, one::<i64>), (58 * 7, one::<i128>), (58 * 7, one::<isize>),
        (58 * 7, one::<u16>), (58 * 7, one::<u32>), (58 * 7, one::<u128>), (58 * 7, one::<usize>),
    ];
    dispatch(idx, &tab, cx)
}
