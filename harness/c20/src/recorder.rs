//! Operand order and receiver / argument roles of every lifted num-traits method.
//!
//! Primitive elements make `a.op(&b)` and `b.op(&a)` equal for the symmetric operations, and cannot
//! tell `wrapping_add` from `saturating_add` away from the limits. Here the element is `Rec`, an opaque
//! RECORDING term: every trait method returns the term hash(method name, receiver, argument), so
//! `a.m(&b)`, `b.m(&a)` and `a.m2(&b)` are pairwise different, and distinct atoms in the lanes make any
//! cross-lane mixing visible. Lane i of `<V as Tr>::m(&a, &b)` must be exactly `<Rec as Tr>::m(&a[i], &b[i])`.
//! The checked methods of `Rec` return None, and the overflowing ones raise the flag, exactly when the
//! ARGUMENT (unary: the receiver) is the atom POISON — asymmetric as well.
//! The rows are one table (`rec_table!`) run by the kind functions of `provided.rs`.

use crate::io::*;
use crate::provided::*;
use crate::vec_table;
use num_traits::ops::checked::{CheckedAdd, CheckedDiv, CheckedMul, CheckedNeg, CheckedRem, CheckedSub};
use num_traits::ops::euclid::{CheckedEuclid, Euclid};
use num_traits::ops::inv::Inv;
use num_traits::ops::overflowing::{OverflowingAdd, OverflowingMul, OverflowingSub};
use num_traits::ops::saturating::{SaturatingAdd, SaturatingMul, SaturatingSub};
use num_traits::ops::wrapping::{WrappingAdd, WrappingMul, WrappingNeg, WrappingSub};
use num_traits::{One, Zero};
use vkit::*;

#[derive(Clone, Copy, PartialEq, Eq, Debug)]
pub struct Rec(pub u64);

fn h(tag: &str, a: u64, b: u64) -> u64 {
    let mut x = 0xcbf29ce484222325u64;
    for &c in tag.as_bytes() {
        x = (x ^ c as u64).wrapping_mul(0x100000001b3);
    }
    for w in [a, b] {
        x = (x ^ w).wrapping_mul(0x9E3779B97F4A7C15).rotate_left(29);
        x = (x ^ (x >> 31)).wrapping_mul(0x100000001b3);
    }
    x
}
const UNARY: u64 = 0x5555_5555_5555_5555;
pub fn atom(k: u64) -> Rec { Rec(h("atom", k, k)) }
pub fn zero_atom() -> Rec { atom(1_000_001) }
pub fn one_atom() -> Rec { atom(1_000_002) }
pub fn poison() -> Rec { atom(1_000_003) }

impl Sc for Rec {
    const NAME: &'static str = "Rec";
    fn same(self, o: Self) -> bool { self == o }
}

macro_rules! rec_op {
    ($($Tr:ident $m:ident;)+) => { $(
        impl core::ops::$Tr for Rec { type Output = Rec; fn $m(self, o: Rec) -> Rec { Rec(h(stringify!($m), self.0, o.0)) } }
    )+ };
}
rec_op!(Add add; Sub sub; Mul mul; Div div; Rem rem;);
impl core::ops::Neg for Rec { type Output = Rec; fn neg(self) -> Rec { Rec(h("neg", self.0, UNARY)) } }

macro_rules! rec_plain { ($($Tr:ident $m:ident;)+) => { $(
    impl $Tr for Rec { fn $m(&self, v: &Self) -> Self { Rec(h(stringify!($m), self.0, v.0)) } }
)+ } }
rec_plain!(WrappingAdd wrapping_add; WrappingSub wrapping_sub; WrappingMul wrapping_mul; SaturatingAdd saturating_add; SaturatingSub saturating_sub; SaturatingMul saturating_mul;);
macro_rules! rec_checked { ($($Tr:ident $m:ident;)+) => { $(
    impl $Tr for Rec { fn $m(&self, v: &Self) -> Option<Self> { if *v == poison() { None } else { Some(Rec(h(stringify!($m), self.0, v.0))) } } }
)+ } }
rec_checked!(CheckedAdd checked_add; CheckedSub checked_sub; CheckedMul checked_mul; CheckedDiv checked_div; CheckedRem checked_rem;);
macro_rules! rec_overflowing { ($($Tr:ident $m:ident;)+) => { $(
    impl $Tr for Rec { fn $m(&self, v: &Self) -> (Self, bool) { (Rec(h(stringify!($m), self.0, v.0)), *v == poison()) } }
)+ } }
rec_overflowing!(OverflowingAdd overflowing_add; OverflowingSub overflowing_sub; OverflowingMul overflowing_mul;);
impl WrappingNeg for Rec { fn wrapping_neg(&self) -> Self { Rec(h("wrapping_neg", self.0, UNARY)) } }
impl CheckedNeg for Rec { fn checked_neg(&self) -> Option<Self> { if *self == poison() { None } else { Some(Rec(h("checked_neg", self.0, UNARY))) } } }
impl Inv for Rec { type Output = Rec; fn inv(self) -> Rec { Rec(h("inv", self.0, UNARY)) } }
impl Euclid for Rec {
    fn div_euclid(&self, v: &Self) -> Self { Rec(h("div_euclid", self.0, v.0)) }
    fn rem_euclid(&self, v: &Self) -> Self { Rec(h("rem_euclid", self.0, v.0)) }
}
impl CheckedEuclid for Rec {
    fn checked_div_euclid(&self, v: &Self) -> Option<Self> { if *v == poison() { None } else { Some(Rec(h("checked_div_euclid", self.0, v.0))) } }
    fn checked_rem_euclid(&self, v: &Self) -> Option<Self> { if *v == poison() { None } else { Some(Rec(h("checked_rem_euclid", self.0, v.0))) } }
}
impl Zero for Rec {
    fn zero() -> Self { zero_atom() }
    fn is_zero(&self) -> bool { *self == zero_atom() }
}
impl One for Rec {
    fn one() -> Self { one_atom() }
}

impl PNum for Rec {
    fn edges() -> Vec<Self> { vec![atom(900), atom(901), poison(), zero_atom(), one_atom()] }
    fn benign(cls: usize, i: usize) -> (Self, Self) {
        match cls {
            C_ZERO => (zero_atom(), zero_atom()),
            C_ONE => (one_atom(), one_atom()),
            // every lane its own pair of atoms: a result lane names the lanes it was made from
            _ => (atom(2 * i as u64), atom(2 * i as u64 + 1)),
        }
    }
    fn bad(cls: usize, variant: usize) -> (Self, Self) {
        match cls {
            C_ZERO => (atom(700 + variant as u64), zero_atom()),
            C_ONE => (atom(710 + variant as u64), one_atom()),
            C_NEG => (poison(), atom(720)),
            _ => (atom(730 + variant as u64), poison()),
        }
    }
    fn bad_alias(cls: usize, variant: usize) -> Option<Self> {
        match cls {
            C_ZERO | C_ONE => Some(Self::bad(cls, variant).0),
            _ => Some(poison()),
        }
    }
    fn risky(_a: &Self, _b: &Self) -> bool { false }
}

/// The recording element: every trait vek lifts.
pub trait PRec:
    PNum
    + CheckedAdd + CheckedSub + CheckedMul + CheckedDiv + CheckedRem + CheckedNeg
    + WrappingAdd + WrappingSub + WrappingMul + WrappingNeg
    + SaturatingAdd + SaturatingSub + SaturatingMul
    + OverflowingAdd + OverflowingSub + OverflowingMul
    + Euclid + CheckedEuclid + Inv<Output = Self>
{
}
impl PRec for Rec {}
pub trait PRecV<T: PRec, const N: usize>:
    VIo<T, N> + Zero + One
    + CheckedAdd + CheckedSub + CheckedMul + CheckedDiv + CheckedRem + CheckedNeg
    + WrappingAdd + WrappingSub + WrappingMul + WrappingNeg
    + SaturatingAdd + SaturatingSub + SaturatingMul
    + OverflowingAdd + OverflowingSub + OverflowingMul
    + Euclid + CheckedEuclid + Inv<Output = Self>
{
}
impl<T: PRec, const N: usize, V> PRecV<T, N> for V where
    V: VIo<T, N> + Zero + One
        + CheckedAdd + CheckedSub + CheckedMul + CheckedDiv + CheckedRem + CheckedNeg
        + WrappingAdd + WrappingSub + WrappingMul + WrappingNeg
        + SaturatingAdd + SaturatingSub + SaturatingMul
        + OverflowingAdd + OverflowingSub + OverflowingMul
        + Euclid + CheckedEuclid + Inv<Output = V>
{
}

macro_rules! rec_table {
    ($cb:ident $($pre:tt)*) => { $cb! { $($pre)*
        nullary Zero zero C_ZERO;
        setter Zero set_zero C_ADD;
        pred Zero is_zero C_ZERO;
        nullary One one C_ONE;
        setter One set_one C_ADD;
        pred One is_one C_ONE;
        checked_bin CheckedAdd checked_add C_ADD;
        checked_bin CheckedSub checked_sub C_ADD;
        checked_bin CheckedMul checked_mul C_ADD;
        checked_bin CheckedDiv checked_div C_ADD;
        checked_bin CheckedRem checked_rem C_ADD;
        checked_un CheckedNeg checked_neg C_NEG;
        plain_bin WrappingAdd wrapping_add C_ADD;
        plain_bin WrappingSub wrapping_sub C_ADD;
        plain_bin WrappingMul wrapping_mul C_ADD;
        plain_un WrappingNeg wrapping_neg C_ADD;
        plain_bin SaturatingAdd saturating_add C_ADD;
        plain_bin SaturatingSub saturating_sub C_ADD;
        plain_bin SaturatingMul saturating_mul C_ADD;
        overflowing_bin OverflowingAdd overflowing_add C_ADD;
        overflowing_bin OverflowingSub overflowing_sub C_ADD;
        overflowing_bin OverflowingMul overflowing_mul C_ADD;
        owned_un Inv inv C_ADD;
        panicky_bin Euclid div_euclid C_ADD;
        panicky_bin Euclid rem_euclid C_ADD;
        panicky_pair Euclid div_rem_euclid C_ADD;
        checked_bin CheckedEuclid checked_div_euclid C_ADD;
        checked_bin CheckedEuclid checked_rem_euclid C_ADD;
        checked_pair CheckedEuclid checked_div_rem_euclid C_ADD;
    } };
}

pub const ABOUT_REC: &str = rec_table!(about_rows
    "operand order, receiver / argument roles, method identity and lane pairing of every lifted num-traits method: the element is a user-defined RECORDING term Rec (every method returns hash(method name, receiver, argument); a.m(&b), b.m(&a), a.m2(&b), a + b are pairwise different; checked methods are None and overflowing flags set exactly when the ARGUMENT - checked_neg: the receiver - is the atom POISON), every lane holds its own pair of atoms. Lane i of <V as Tr>::m(&a, &b) must be exactly <Rec as Tr>::m(&a[i], &b[i]); None / flag iff some lane's. (trait::method [operand class]) rows, one table: ";
    "- one case = (vector type of the 13, lane p of 146, background: plain / the next / the previous lane has POISON as its argument); lane p sweeps all 25 pairs of {atom, atom', POISON, ZERO, ONE} as two objects (so (x, POISON) is None and (POISON, x) is Some) and every (x, x) as the same object. Index-driven, seed-independent";
);

fn rec_core<T: PRec, V: PRecV<T, N>, const N: usize>(p: usize, bg: u64, cx: &mut Cx) -> CaseResult {
    let e = T::edges();
    let bad = match bg { 0 => None, 1 => Some((p + 1) % N), _ => Some((p + N - 1) % N) };
    let mut st = St::default();
    let mut arrs: Arrs<T, N> = backgrounds::<T, N>(bad, bg as usize);
    sample!(cx, "{}<Rec> lane p={} sweeps all pairs of [atom, atom', POISON, ZERO, ONE]; background={} (lane {:?}); A={:?} B={:?}", V::NAME, p, ["plain", "next lane's argument is POISON", "previous lane's argument is POISON"][bg as usize], bad, arrs[C_ADD].0, arrs[C_ADD].1);
    for &x in e.iter() {
        for &y in e.iter() {
            for cls in 0..NCLS {
                arrs[cls].0[p] = x;
                arrs[cls].1[p] = y;
            }
            let mut c = Ctx::new(&mut *cx, &arrs, p, &mut st, false);
            rec_table!(run_rows c;);
        }
    }
    let mut arrs: Arrs<T, N> = backgrounds_alias::<T, N>(bad, bg as usize);
    for &x in e.iter() {
        for cls in 0..NCLS {
            arrs[cls].0[p] = x;
            arrs[cls].1[p] = x;
        }
        let mut c = Ctx::new(&mut *cx, &arrs, p, &mut st, true);
        rec_table!(run_rows c;);
    }
    labels(cx, bg, &st);
    cx.label(V::NAME);
    cx.set_nontrivial(st.focus_fail && st.focus_ok && st.pair_none && (bad.is_some() || st.pair_some));
    Ok(())
}

pub fn rec_all(idx: u64, cx: &mut Cx) -> CaseResult {
    let t = vec_table!(rec_core, Rec, CoreFn);
    spread(idx, &t, cx)
}
