//! C20 behaviour digest: a seeded battery of calls into the part of vek's API that exists in every
//! feature configuration (no optional type, no interop crate). Prints one line per section
//! (`section <name> <hash>`); the feature-matrix tool compares the lines between configurations:
//! enabling a feature may only add items, so every line must be identical to the line obtained with
//! the bare base feature (`std` or `libm`) alone. Pure function of (vek sources, features, seed).
#![allow(deprecated)]
use std::fmt::Write as _;
use vek::bezier::repr_c::{CubicBezier2, CubicBezier3, QuadraticBezier2, QuadraticBezier3};
use vek::geom::repr_c::{Aabb, Aabr, Disk, LineSegment2, LineSegment3, Ray, Rect, Rect3, Sphere};
use vek::mat::repr_c::column_major as cm;
use vek::mat::repr_c::row_major as rm;
use vek::ops::*;
use vek::quaternion::repr_c::Quaternion;
use vek::transform::repr_c::Transform;
use vek::vec::repr_c::{Extent2, Extent3, Vec2, Vec3, Vec4};
use vek::FrustumPlanes;

struct Rng(u64);
impl Rng {
    fn next(&mut self) -> u64 {
        self.0 = self.0.wrapping_add(0x9E37_79B9_7F4A_7C15);
        let mut z = self.0;
        z = (z ^ (z >> 30)).wrapping_mul(0xBF58_476D_1CE4_E5B9);
        z = (z ^ (z >> 27)).wrapping_mul(0x94D0_49BB_1331_11EB);
        z ^ (z >> 31)
    }
    /// dyadic value in [-8, 8) with 8 fractional bits
    fn f(&mut self) -> f32 {
        ((self.next() % 4096) as i64 - 2048) as f32 / 256.0
    }
    fn d(&mut self) -> f64 {
        ((self.next() % 4096) as i64 - 2048) as f64 / 256.0
    }
    fn unit(&mut self) -> f32 {
        (self.next() % 257) as f32 / 256.0
    }
    fn i(&mut self) -> i32 {
        (self.next() % 201) as i32 - 100
    }
    fn i8(&mut self) -> i8 {
        self.next() as i8
    }
    fn v2(&mut self) -> Vec2<f32> {
        Vec2::new(self.f(), self.f())
    }
    fn v3(&mut self) -> Vec3<f32> {
        Vec3::new(self.f(), self.f(), self.f())
    }
    fn v4(&mut self) -> Vec4<f32> {
        Vec4::new(self.f(), self.f(), self.f(), self.f())
    }
    fn v3d(&mut self) -> Vec3<f64> {
        Vec3::new(self.d(), self.d(), self.d())
    }
    fn nz3(&mut self) -> Vec3<f32> {
        loop {
            let v = self.v3();
            if v.magnitude_squared() > 0.25 {
                return v;
            }
        }
    }
}

struct Sec {
    name: &'static str,
    h: u64,
    n: u64,
}
impl Sec {
    fn new(name: &'static str) -> Sec {
        Sec { name, h: 0xcbf2_9ce4_8422_2325, n: 0 }
    }
    fn put<T: std::fmt::Debug>(&mut self, x: T) {
        let mut s = String::new();
        write!(s, "{:?};", x).unwrap();
        for b in s.bytes() {
            self.h ^= b as u64;
            self.h = self.h.wrapping_mul(0x0000_0100_0000_01B3);
        }
        self.n += 1;
    }
    fn puts(&mut self, s: String) {
        self.put(s)
    }
    fn done(self) {
        println!("section {} {:016x} {}", self.name, self.h, self.n);
    }
}

fn vectors(r: &mut Rng) {
    let mut s = Sec::new("vectors");
    for _ in 0..200 {
        let (a, b, c) = (r.v3(), r.v3(), r.nz3());
        s.put(a + b);
        s.put(a - b * 2.0);
        s.put(a * b);
        s.put(a / c.map(|x| if x == 0.0 { 1.0 } else { x }));
        s.put(-a);
        s.put(a.dot(b));
        s.put(a.cross(b));
        s.put(a.magnitude_squared());
        s.put(a.distance_squared(b));
        s.put(c.normalized());
        s.put(c.magnitude());
        s.put(a.reflected(c.normalized()));
        s.put(a.sum());
        s.put(a.product());
        s.put(a.reduce_partial_min());
        s.put(a.reduce_partial_max());
        s.put(Vec3::<f32>::partial_min(a, b));
        s.put(Vec3::<f32>::partial_max(a, b));
        s.put(a.partial_cmplt(&b));
        s.put(a.partial_cmpge(&b));
        s.put(a.map(|x| x * 3.0 + 1.0));
        s.put(a.mul_add(b, c));
        s.put(Vec3::lerp(a, b, r.unit()));
        s.put(a.clamped(Vec3::broadcast(-1.0), Vec3::broadcast(1.0)));
        s.put(a.floor());
        s.put(a.round());
        s.put(a.angle_between(c));
        s.put(a.into_array());
        s.put(Vec3::<f32>::from([a.x, b.y, c.z]));
        s.put(Vec4::<f32>::from(a));
        s.put(Vec2::<f32>::from(a));
        s.put(a.xy());
        s.put(a.zyx());
        let (p, q) = (r.v2(), r.v2());
        s.put(p.rotated_z(r.f()));
        s.put(Vec2::<f32>::signed_triangle_area(p, q, r.v2()));
        s.put(p.yx());
        let (u, w) = (r.v4(), r.v4());
        s.put(u.dot(w));
        s.put(u + w);
        s.put(u.wzyx());
        s.put(u.into_iter().rev().collect::<Vec<_>>());
        s.put(u.iter().sum::<f32>());
        s.puts(format!("{} {} {}", a, p, u));
        let (x, y) = (Vec4::new(r.i(), r.i(), r.i(), r.i()), Vec4::new(r.i(), r.i(), r.i(), r.i()));
        s.put(x + y);
        s.put(x * y - x);
        s.put(x & y);
        s.put(x | y);
        s.put(x ^ y);
        s.put(x << Vec4::broadcast(3));
        s.put(x >> 2);
        s.put(!x);
        s.put(x % y.map(|v| if v == 0 { 7 } else { v }));
        s.put(x.sum());
        s.put(x.reduce_min());
        s.put(x.reduce_max());
        s.put(x.cmpeq(&y));
        s.put(Vec4::<i32>::min(x, y));
        s.put(x.as_::<u8>());
        s.put(x.numcast::<u8>());
        s.put(x.map(|v| v as f32).average());
        let e = Extent3::new(r.i().unsigned_abs(), r.i().unsigned_abs(), r.i().unsigned_abs());
        s.put(e.product());
        s.put(Extent2::from(e));
        s.put(Vec3::<u32>::from(e) + 1);
        s.put(Vec3::<i32>::iota());
        s.put(Vec4::<f32>::unit_w());
        s.put(Vec4::<f32>::zero().is_approx_zero());
    }
    s.done();
}

fn matrices(r: &mut Rng) {
    let mut s = Sec::new("matrices");
    for _ in 0..120 {
        let a = rm::Mat4::<f32>::new(
            r.f(), r.f(), r.f(), r.f(), r.f(), r.f(), r.f(), r.f(), r.f(), r.f(), r.f(), r.f(), r.f(), r.f(), r.f(), r.f(),
        );
        let b = cm::Mat4::<f32>::new(
            r.f(), r.f(), r.f(), r.f(), r.f(), r.f(), r.f(), r.f(), r.f(), r.f(), r.f(), r.f(), r.f(), r.f(), r.f(), r.f(),
        );
        let v = r.v4();
        s.put(a * a);
        s.put(b * b);
        s.put(a * b);
        s.put(b * a);
        s.put(a * v);
        s.put(v * a);
        s.put(b * v);
        s.put(v * b);
        s.put(a.transposed());
        s.put(b.transposed());
        s.put(a.determinant());
        s.put(b.determinant());
        s.put(a.into_row_array());
        s.put(a.into_col_array());
        s.put(b.into_row_arrays());
        s.put(b.into_col_arrays());
        s.put(a[(1, 2)]);
        s.put(b[(1, 2)]);
        // writes through IndexMut / in-place forms, every size and both layouts (a feature must not change where a write lands)
        {
            let (mut a2, mut b2) = (a, b);
            a2[(1, 2)] = 7.5;
            a2[(3, 0)] = -2.25;
            b2[(1, 2)] = 7.5;
            b2[(3, 0)] = -2.25;
            s.put(a2);
            s.put(b2);
            s.put(a2.into_row_array());
            s.put(b2.into_row_array());
            s.put((a2[(1, 2)], a2[(2, 1)], b2[(1, 2)], b2[(2, 1)], a2[(3, 0)], b2[(0, 3)]));
            a2.transpose();
            b2.transpose();
            s.put(a2);
            s.put(b2);
            a2 *= a;
            b2 *= b;
            a2 += a;
            b2 -= b;
            a2 *= 0.5;
            s.put(a2);
            s.put(b2);
            let (mut a3, mut b3) = (rm::Mat3::from(a), cm::Mat3::from(b));
            a3[(0, 2)] = 1.25;
            a3[(2, 1)] = -4.0;
            b3[(0, 2)] = 1.25;
            b3[(2, 1)] = -4.0;
            s.put(a3);
            s.put(b3);
            s.put((a3.into_row_array(), b3.into_row_array(), a3.into_col_array(), b3.into_col_array()));
            let (mut a4, mut b4) = (rm::Mat2::from(a), cm::Mat2::from(b));
            a4[(0, 1)] = 9.0;
            b4[(0, 1)] = 9.0;
            b4[(1, 0)] = -9.0;
            s.put(a4);
            s.put(b4);
            s.put((a4.into_row_array(), b4.into_row_array()));
            let mut w = v;
            w[2] = 3.5;
            w[0] += 1.0;
            s.put(w);
            let mut t2 = a;
            t2.invert();
            s.put(t2);
            let mut t3 = b;
            t3.invert();
            s.put(t3);
        }
        s.put(a.trace());
        s.put(a.diagonal());
        s.put(rm::Mat3::from(a));
        s.put(cm::Mat2::from(b));
        s.put(rm::Mat4::from(b));
        s.put(cm::Mat4::from(a));
        s.put(a + a * 0.5);
        s.put(b - b * 2.0);
        s.put(a.map(|x| x.abs()));
        s.puts(format!("{}", a));
        s.puts(format!("{}", b));
        let (ang, ax) = (r.f(), r.nz3());
        let t = cm::Mat4::<f32>::translation_3d(r.v3()) * cm::Mat4::rotation_3d(ang, ax) * cm::Mat4::scaling_3d(Vec3::new(1.5, 2.0, 0.5));
        s.put(t);
        s.put(t.inverted());
        s.put(t.inverted_affine_transform());
        s.put(t.mul_point(r.v3()));
        s.put(t.mul_direction(r.v3()));
        s.put(rm::Mat4::<f32>::rotation_x(ang).rotated_y(0.5).rotated_z(-0.25).translated_3d(r.v3()).scaled_3d(r.nz3()));
        s.put(rm::Mat3::<f32>::rotation_3d(ang, ax));
        s.put(rm::Mat3::<f32>::rotation_3d(ang, ax).determinant());
        s.put(cm::Mat2::<f32>::rotation_z(ang) * r.v2());
        s.put(cm::Mat2::<f32>::shearing_x(r.f()) * cm::Mat2::<f32>::shearing_y(r.f()));
        s.put(rm::Mat2::<f32>::new(r.f(), r.f(), r.f(), r.f()).determinant());
        let (eye, tgt) = (r.v3(), r.nz3() * 4.0);
        if (tgt - eye).magnitude_squared() > 0.5 {
            s.put(cm::Mat4::<f32>::look_at_rh(eye, tgt, Vec3::unit_y()));
            s.put(rm::Mat4::<f32>::look_at_lh(eye, tgt, Vec3::unit_y()));
            s.put(cm::Mat4::<f32>::model_look_at_rh(eye, tgt, Vec3::unit_y()));
        }
        let fr = FrustumPlanes { left: -1.0 - r.unit(), right: 1.0 + r.unit(), bottom: -1.0 - r.unit(), top: 1.0 + r.unit(), near: 0.5 + r.unit(), far: 10.0 + r.unit() };
        s.put(cm::Mat4::<f32>::orthographic_rh_no(fr));
        s.put(cm::Mat4::<f32>::orthographic_lh_zo(fr));
        s.put(cm::Mat4::<f32>::frustum_rh_no(fr));
        s.put(rm::Mat4::<f32>::frustum_lh_zo(fr));
        s.put(cm::Mat4::<f32>::perspective_rh_no(0.5 + r.unit(), 1.0 + r.unit(), 0.1, 100.0));
        s.put(cm::Mat4::<f32>::perspective_fov_lh_zo(0.5 + r.unit(), 800.0, 600.0, 0.1, 100.0));
        s.put(cm::Mat4::<f32>::infinite_perspective_rh(0.5 + r.unit(), 1.5, 0.1));
        let vp = Rect::new(0.0f32, 0.0, 800.0, 600.0);
        let proj = cm::Mat4::<f32>::perspective_rh_no(1.0, 4.0 / 3.0, 0.1, 100.0);
        let mv = cm::Mat4::<f32>::translation_3d(Vec3::new(0.0, 0.0, -5.0));
        let w = cm::Mat4::<f32>::world_to_viewport_no(r.v3(), mv, proj, vp);
        s.put(w);
        s.put(cm::Mat4::<f32>::viewport_to_world_no(w, mv, proj, vp));
        s.put(cm::Mat4::<f32>::picking_region(Vec2::new(400.0, 300.0), Vec2::new(10.0, 20.0), vp));
        s.put(rm::Mat4::<i32>::identity() * 3 + rm::Mat4::<i32>::broadcast_diagonal(2));
        s.put(rm::Mat3::<i32>::new(r.i(), r.i(), r.i(), r.i(), r.i(), r.i(), r.i(), r.i(), r.i()).determinant());
    }
    s.done();
}

fn quaternions(r: &mut Rng) {
    let mut s = Sec::new("quaternions");
    for _ in 0..200 {
        let p = Quaternion::<f32>::rotation_3d(r.f(), r.nz3());
        let q = Quaternion::<f32>::rotation_x(r.f()).rotated_y(r.f()).rotated_z(r.f());
        s.put(p * q);
        s.put(p * r.v3());
        s.put(q * r.v4());
        s.put(p.conjugate());
        s.put(p.inverse());
        s.put(p.dot(q));
        s.put(p.magnitude());
        s.put((p + q).normalized());
        s.put(Quaternion::slerp(p, q, r.unit()));
        s.put(<Quaternion<f32> as Lerp<f32>>::lerp(p, q, r.unit()));
        s.put(Quaternion::lerp_unclamped(p, q, r.f()));
        s.put(cm::Mat4::<f32>::from(p));
        s.put(rm::Mat3::<f32>::from(q));
        s.put(p.into_angle_axis());
        s.put(Quaternion::<f32>::rotation_from_to_3d(r.nz3(), r.nz3()));
        s.put(p.into_vec4());
        s.put(Quaternion::<f32>::from_xyzw(r.f(), r.f(), r.f(), r.f()) - q);
        let t1 = Transform { position: r.v3(), orientation: p, scale: r.nz3() };
        let t2 = Transform { position: r.v3(), orientation: q, scale: r.nz3() };
        s.put(cm::Mat4::<f32>::from(t1));
        s.put(rm::Mat4::<f32>::from(t2));
        s.put(Transform::lerp(t1, t2, r.unit()));
        s.put(Transform::<f32, f32, f32>::default());
        let d = Quaternion::<f64>::rotation_3d(r.d(), r.v3d() + Vec3::new(9.0, 0.0, 0.0));
        s.put(d * r.v3d());
        s.put(cm::Mat4::<f64>::from(d).determinant());
    }
    s.done();
}

fn beziers(r: &mut Rng) {
    let mut s = Sec::new("bezier");
    for _ in 0..150 {
        let q2 = QuadraticBezier2 { start: r.v2(), ctrl: r.v2(), end: r.v2() };
        let c2 = CubicBezier2 { start: r.v2(), ctrl0: r.v2(), ctrl1: r.v2(), end: r.v2() };
        let q3 = QuadraticBezier3 { start: r.v3(), ctrl: r.v3(), end: r.v3() };
        let c3 = CubicBezier3 { start: r.v3(), ctrl0: r.v3(), ctrl1: r.v3(), end: r.v3() };
        let t = r.unit();
        s.put(q2.evaluate(t));
        s.put(c2.evaluate(t));
        s.put(q3.evaluate(t));
        s.put(c3.evaluate(t));
        s.put(q2.evaluate_derivative(t));
        s.put(c3.evaluate_derivative(t));
        s.put(q2.split(t));
        s.put(c3.split(t));
        s.put(q2.x_bounds());
        s.put(c2.y_bounds());
        s.put(c3.z_bounds());
        s.put(q2.aabr());
        s.put(c2.aabr());
        s.put(q3.aabb());
        s.put(c3.aabb());
        s.put(c2.x_inflections());
        s.put(c2.min_x());
        s.put(c2.max_y());
        s.put(q2.length_by_discretization(16));
        s.put(c3.length_by_discretization(16));
        s.put(c2.binary_search_point_by_steps(r.v2(), 8, 1e-4));
        s.put(q3.binary_search_point_by_steps(r.v3(), 8, 1e-4));
        s.put(q2.into_cubic());
        s.put(c2.reversed());
        s.put(q3.into_vec3());
        s.put(c3.into_vec4());
        s.put(CubicBezier2::<f32>::matrix());
        s.put(CubicBezier2::<f32>::unit_circle());
        s.put(QuadraticBezier2::from(LineSegment2 { start: r.v2(), end: r.v2() }));
        s.put(cm::Mat3::<f32>::rotation_z(0.5) * q3);
        s.put(rm::Mat4::<f32>::translation_3d(r.v3()) * c3);
        s.put(q2.normalized_tangent(t));
    }
    s.done();
}

fn geometry(r: &mut Rng) {
    let mut s = Sec::new("geom");
    for _ in 0..200 {
        let a = Aabr { min: Vec2::new(r.i(), r.i()), max: Vec2::new(r.i(), r.i()) }.made_valid();
        let b = Aabr { min: Vec2::new(r.i(), r.i()), max: Vec2::new(r.i(), r.i()) }.made_valid();
        let p = Vec2::new(r.i(), r.i());
        s.put(a.union(b));
        s.put(a.intersection(b));
        s.put(a.contains_point(p));
        s.put(a.contains_aabr(b));
        s.put(a.collides_with_aabr(b));
        s.put(a.expanded_to_contain_point(p));
        s.put(a.center());
        s.put(a.size());
        s.put(a.projected_point(p));
        s.put(a.is_valid());
        s.put(Rect::from(a));
        s.put(Aabr::from(Rect::new(r.i(), r.i(), 5, 7)));
        s.put(Rect::new(r.i(), r.i(), 5, 7).contains_point(p));
        s.put(Rect::new(r.i(), r.i(), 5, 7).collides_with_rect(Rect::new(r.i(), r.i(), 9, 3)));
        let fa = Aabb { min: r.v3(), max: r.v3() }.made_valid();
        let fb = Aabb { min: r.v3(), max: r.v3() }.made_valid();
        let fp = r.v3();
        s.put(fa.union(fb));
        s.put(fa.intersection(fb));
        s.put(fa.collision_vector_with_aabb(fb));
        s.put(fa.distance_to_point(fp));
        s.put(fa.half_size());
        s.put(fa.contains_aabb(fb));
        s.put(fa.split_at_x(fa.center().x));
        s.put(Rect3::from(fa));
        s.put(fa.as_::<i16>());
        let d1 = Disk::new(r.v2(), 0.5 + r.unit());
        let d2 = Disk::new(r.v2(), 0.5 + r.unit());
        s.put(d1.collides_with_disk(d2));
        s.put(d1.collision_vector_with_disk(d2));
        s.put(d1.contains_point(r.v2()));
        s.put(d1.area());
        s.put(d1.aabr());
        let s1 = Sphere::new(r.v3(), 0.5 + r.unit());
        s.put(s1.collides_with_sphere(Sphere::new(r.v3(), 1.0)));
        s.put(s1.volume());
        s.put(s1.aabb());
        let ray = Ray::new(r.v3(), r.nz3().normalized());
        s.put(ray.triangle_intersection([r.v3() * 4.0, r.v3() * 4.0, r.v3() * 4.0]));
        let l2 = LineSegment2 { start: r.v2(), end: r.v2() };
        let l3 = LineSegment3 { start: r.v3(), end: r.v3() };
        s.put(l2.projected_point(r.v2()));
        s.put(l2.distance_to_point(r.v2()));
        s.put(l3.projected_point(r.v3()));
        s.put(l3.distance_to_point(r.v3()));
    }
    s.done();
}

fn scalar_ops(r: &mut Rng) {
    let mut s = Sec::new("ops");
    for _ in 0..400 {
        let (x, lo, hi) = (r.i(), -(r.i().abs()) - 1, r.i().abs() + 1);
        s.put(x.clamped(lo, hi));
        s.put(x.is_between(lo, hi));
        s.put(x.wrapped(hi));
        let l2 = r.i().abs();
        s.put(x.wrapped_between(l2, l2 + hi));
        s.put(x.pingpong(hi));
        s.put(i32::lerp(lo, hi, r.unit()));
        s.put(i32::lerp_unclamped_precise(lo, hi, r.f()));
        s.put(u8::lerp(r.next() as u8, r.next() as u8, r.unit()));
        let (f, g) = (r.f(), 0.5 + r.unit());
        s.put(f.wrapped(g));
        s.put(f.wrapped_between(g, g + 1.5));
        s.put(f.pingpong(g));
        s.put(f.wrapped_2pi());
        s.put(f.delta_angle(r.f()));
        s.put(f.delta_angle_degrees(r.f() * 40.0));
        s.put(f.clamped01());
        s.put(f.clamped_minus1_1());
        s.put(f32::lerp(f, g, r.unit()));
        s.put(f64::lerp_unclamped_precise(r.d(), r.d(), r.d()));
        s.put(r.d().wrapped_2pi());
        s.put(Vec3::new(r.i(), r.i(), r.i()).wrapped(Vec3::new(3, 5, 7)));
        s.put(<Vec2<f32> as Clamp<f32>>::clamped01(Vec2::new(r.f(), r.f())));
    }
    s.done();
}

fn lifts(r: &mut Rng) {
    use num_traits_shim::*;
    let mut s = Sec::new("lifts");
    for _ in 0..400 {
        let a = Vec4::new(r.i8(), r.i8(), r.i8(), r.i8());
        let b = Vec4::new(r.i8(), r.i8(), r.i8(), r.i8());
        s.put(a.checked_add(&b));
        s.put(a.checked_sub(&b));
        s.put(a.checked_mul(&b));
        s.put(a.checked_div(&b));
        s.put(a.wrapping_add(&b));
        s.put(a.wrapping_mul(&b));
        s.put(a.saturating_add(&b));
        s.put(a.saturating_sub(&b));
        s.put(a.is_zero());
        s.put(Vec4::<i8>::one());
        s.put(a.as_::<u16>());
        s.put(a.numcast::<u8>());
        s.put(a.as_::<f32>());
        let (x, y) = (r.v3(), r.v3());
        s.put(approx_shim::abs_diff_eq(&x, &y, 4.0));
        s.put(approx_shim::relative_eq(&x, &(x + Vec3::broadcast(1e-7))));
        s.put(approx_shim::ulps_eq(&x, &x));
    }
    s.done();
}

/// The traits are used through vek's own re-exports so that this program needs no dependency of its own.
mod num_traits_shim {
    pub use vek::num_traits::{CheckedAdd, CheckedDiv, CheckedMul, CheckedSub, One, SaturatingAdd, SaturatingSub, WrappingAdd, WrappingMul, Zero};
}
mod approx_shim {
    use vek::approx::{AbsDiffEq, RelativeEq, UlpsEq};
    pub fn abs_diff_eq<T: AbsDiffEq>(a: &T, b: &T, e: T::Epsilon) -> bool {
        a.abs_diff_eq(b, e)
    }
    pub fn relative_eq<T: RelativeEq>(a: &T, b: &T) -> bool {
        a.relative_eq(b, T::default_epsilon(), T::default_max_relative())
    }
    pub fn ulps_eq<T: UlpsEq>(a: &T, b: &T) -> bool {
        a.ulps_eq(b, T::default_epsilon(), T::default_max_ulps())
    }
}

fn layout() {
    use std::mem::{align_of, size_of};
    let mut s = Sec::new("layout");
    macro_rules! l {
        ($($t:ty),+) => { $( s.put((stringify!($t), size_of::<$t>(), align_of::<$t>())); )+ };
    }
    l!(Vec2<f32>, Vec3<f32>, Vec4<f32>, Vec4<u8>, Vec3<f64>, Extent2<u32>, Extent3<u16>, rm::Mat2<f32>, rm::Mat3<f32>, rm::Mat4<f32>, cm::Mat4<f64>, Quaternion<f32>, Transform<f32, f32, f32>, Aabr<i32>, Aabb<f32>, Rect<i32, u32>, Rect3<f32, f32>, Disk<f32, f32>, Sphere<f32, f32>, Ray<f32>, LineSegment2<f32>, LineSegment3<f64>, CubicBezier3<f32>, QuadraticBezier2<f64>, FrustumPlanes<f32>);
    s.done();
}

fn main() {
    let seed: u64 = std::env::args().nth(1).and_then(|s| s.parse().ok()).unwrap_or(1);
    let mut r = Rng(seed.wrapping_mul(0x2545_F491_4F6C_DD1D) ^ 0x1234_5678);
    vectors(&mut r);
    matrices(&mut r);
    quaternions(&mut r);
    beziers(&mut r);
    geometry(&mut r);
    scalar_ops(&mut r);
    lifts(&mut r);
    layout();
}
