#![no_main]
//! libFuzzer target for C15: byte 0 selects one of the property's tape checks, the rest is the tape.
//! The oracle is inside the case function; a violation aborts (crash artifact), see vkit::driver::fuzz_one.
use libfuzzer_sys::fuzz_target;
use std::sync::OnceLock;
static PROP: OnceLock<vkit::Property> = OnceLock::new();
fuzz_target!(|data: &[u8]| {
    vkit::driver::fuzz_one(PROP.get_or_init(c15::property), data);
});
