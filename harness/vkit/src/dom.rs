//! Scalar domains the real vek code is instantiated with in numeric checks: exact `Rat`,
//! and `f64` / `f32` with derived tolerances.

use crate::driver::Cx;
use crate::rat::{self, Rat};
use crate::tape::Tape;
use num_traits::real::Real;
use num_traits::FloatConst;
use std::fmt::Debug;

pub trait Dom:
    Real
    + FloatConst
    + Debug
    + Default
    + num_traits::ops::mul_add::MulAdd<Self, Self, Output = Self>
    + approx::RelativeEq<Epsilon = Self>
    + approx::UlpsEq
    + vek::ops::Clamp
    + vek::ops::IsBetween<Output = bool>
    + vek::ops::Lerp<Self, Output = Self>
    + From<u8>
    + From<u16>
    + std::ops::AddAssign
    + std::ops::SubAssign
    + std::ops::MulAssign
    + std::ops::DivAssign
    + 'static
{
    const EXACT: bool;
    const NAME: &'static str;
    /// machine epsilon as f64 (0 for exact domains)
    fn eps() -> f64;
    fn q(n: i64, d: i64) -> Self;
    fn i(n: i64) -> Self {
        Self::q(n, 1)
    }
    fn f(self) -> f64;
    /// A "small" value: integers and simple fractions, magnitude <= ~max.
    fn small(t: &mut Tape, max: i64) -> Self;
    /// A general value of moderate magnitude (|x| <= max); floats draw from a continuous range in half
    /// of the cases, exact domains reuse `small`.
    fn any(t: &mut Tape, max: i64) -> Self;
    /// An angle the domain can take sin/cos/tan of (and of its half and negation). `Rat` registers it.
    fn angle(t: &mut Tape) -> Self;
    /// An angle in (0, pi), for fields of view.
    fn angle_0_pi(t: &mut Tape) -> Self;
    /// Register / compute the sum of two angles previously returned by `angle`.
    fn angle_sum(a: Self, b: Self) -> Option<Self>;
}

fn small_fraction(t: &mut Tape, max: i64) -> (i64, i64) {
    let n = t.small_int(max);
    let d = t.pick(&[1i64, 1, 1, 1, 2, 2, 3, 4, 5, 8]);
    (n, d)
}

impl Dom for Rat {
    const EXACT: bool = true;
    const NAME: &'static str = "Rat";
    fn eps() -> f64 {
        0.0
    }
    fn q(n: i64, d: i64) -> Rat {
        Rat::frac(n, d)
    }
    fn f(self) -> f64 {
        self.to_f64_lossy()
    }
    fn small(t: &mut Tape, max: i64) -> Rat {
        let (n, d) = small_fraction(t, max);
        Rat::frac(n, d)
    }
    fn any(t: &mut Tape, max: i64) -> Rat {
        Self::small(t, max)
    }
    fn angle(t: &mut Tape) -> Rat {
        // u = tan(angle/4): |u| < 1 gives angle in (-pi, pi), |u| > 1 reaches (-2pi, 2pi)
        let d = t.int(2, 8);
        let n = t.int(-(d - 1), d - 1);
        let n = if n == 0 { 1 } else { n };
        let u = if t.chance(48) { Rat::frac(d, n) } else { Rat::frac(n, d) };
        rat::register_angle_quarter_tan(u)
    }
    fn angle_0_pi(t: &mut Tape) -> Rat {
        let d = t.int(2, 8);
        let n = t.int(1, d - 1);
        rat::register_angle_quarter_tan(Rat::frac(n, d))
    }
    fn angle_sum(a: Rat, b: Rat) -> Option<Rat> {
        rat::register_angle_sum(a, b)
    }
}

macro_rules! float_dom {
    ($F:ident, $name:expr) => {
        impl Dom for $F {
            const EXACT: bool = false;
            const NAME: &'static str = $name;
            fn eps() -> f64 {
                $F::EPSILON as f64
            }
            fn q(n: i64, d: i64) -> $F {
                n as $F / d as $F
            }
            fn f(self) -> f64 {
                self as f64
            }
            fn small(t: &mut Tape, max: i64) -> $F {
                let (n, d) = small_fraction(t, max);
                n as $F / d as $F
            }
            fn any(t: &mut Tape, max: i64) -> $F {
                if t.bool() {
                    Self::small(t, max)
                } else {
                    { let m = t.unit_f64() * max as f64; (if t.bool() { -m } else { m }) as $F }
                }
            }
            fn angle(t: &mut Tape) -> $F {
                let sel = t.below(8);
                let pi = std::f64::consts::PI;
                (match sel {
                    0 => t.pick(&[pi / 2.0, -pi / 2.0, pi, -pi, pi / 3.0, -pi / 6.0, pi / 4.0, 2.0 * pi / 3.0]),
                    _ => t.range_f64(-2.0 * pi, 2.0 * pi),
                }) as $F
            }
            fn angle_0_pi(t: &mut Tape) -> $F {
                t.range_f64(0.05, std::f64::consts::PI - 0.05) as $F
            }
            fn angle_sum(a: $F, b: $F) -> Option<$F> {
                Some(a + b)
            }
        }
    };
}
float_dom!(f64, "f64");
float_dom!(f32, "f32");

/// Closeness of two scalars: exact equality in exact domains; `|a-b| <= k * eps * max(1, scale)` for floats.
pub fn close<S: Dom>(cx: &mut Cx, a: S, b: S, scale: f64, k: f64) -> bool {
    cx.count();
    if S::EXACT {
        a == b
    } else {
        let (x, y) = (a.f(), b.f());
        if x == y {
            return true;
        }
        let tol = k * S::eps() * scale.abs().max(1.0);
        let d = (x - y).abs();
        if !(d.is_finite()) {
            return false;
        }
        cx.note_err(d / tol);
        d <= tol
    }
}

#[macro_export]
macro_rules! check_close {
    ($cx:expr, $S:ty, $got:expr, $want:expr, $scale:expr, $k:expr, $($arg:tt)*) => {{
        let g = $got;
        let w = $want;
        if !$crate::dom::close::<$S>($cx, g, w, ($scale) as f64, ($k) as f64) {
            return Err($crate::driver::Fail::Violation(format!("{}: got {:?}, want {:?} (scale {:.3e}, k {})", format!($($arg)*), g, w, $scale as f64, $k as f64)));
        }
    }};
}
