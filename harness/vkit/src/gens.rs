//! Structured generators shared by the matrix / quaternion checks: rational rotations, unit vectors
//! with rational length, rigid and TRS matrices as plain arrays.

use crate::dom::Dom;
use crate::refmath as rf;
use crate::tape::Tape;

/// A non-zero integer quaternion (w, x, y, z) with small components.
pub fn int_quat(t: &mut Tape, max: i64) -> [i64; 4] {
    let mut q = [t.int(-max, max), t.int(-max, max), t.int(-max, max), t.int(-max, max)];
    if q == [0, 0, 0, 0] {
        q[0] = 1;
    }
    q
}

/// Unit quaternion (w,x,y,z) = q/|q| is generally irrational; the rotation matrix of q is rational:
/// Euler-Rodrigues, R = (1/n) * [...], n = w^2+x^2+y^2+z^2. Proper rotation (det +1).
pub fn rotation_from_int_quat<S: Dom>(q: &[i64; 4]) -> [[S; 3]; 3] {
    let (w, x, y, z) = (q[0], q[1], q[2], q[3]);
    let n = w * w + x * x + y * y + z * z;
    let e = |a: i64| S::q(a, n);
    [
        [e(w * w + x * x - y * y - z * z), e(2 * (x * y - w * z)), e(2 * (x * z + w * y))],
        [e(2 * (x * y + w * z)), e(w * w - x * x + y * y - z * z), e(2 * (y * z - w * x))],
        [e(2 * (x * z - w * y)), e(2 * (y * z + w * x)), e(w * w - x * x - y * y + z * z)],
    ]
}

/// A random proper rotation matrix with rational entries (exact in `Rat`, orthonormal to rounding in floats).
pub fn rotation3<S: Dom>(t: &mut Tape) -> [[S; 3]; 3] {
    let q = int_quat(t, 4);
    rotation_from_int_quat(&q)
}

/// Integer vectors of integer length (Pythagorean quadruples and axis vectors), with signs and
/// coordinate order chosen from the tape. Returns (vector, length).
pub fn pythagorean3(t: &mut Tape) -> ([i64; 3], i64) {
    const Q: [([i64; 3], i64); 12] = [
        ([1, 2, 2], 3),
        ([2, 3, 6], 7),
        ([1, 4, 8], 9),
        ([4, 4, 7], 9),
        ([2, 6, 9], 11),
        ([6, 6, 7], 11),
        ([3, 4, 12], 13),
        ([2, 10, 11], 15),
        ([0, 3, 4], 5),
        ([0, 5, 12], 13),
        ([0, 0, 1], 1),
        ([0, 8, 15], 17),
    ];
    let (mut v, len) = Q[t.below(Q.len())];
    // permute
    let p = t.below(6);
    let perms = [[0, 1, 2], [0, 2, 1], [1, 0, 2], [1, 2, 0], [2, 0, 1], [2, 1, 0]];
    let w = v;
    for i in 0..3 {
        v[i] = w[perms[p][i]];
    }
    let signs = t.below(8);
    for i in 0..3 {
        if signs >> i & 1 == 1 {
            v[i] = -v[i];
        }
    }
    (v, len)
}

/// Unit vector with rational components.
pub fn unit3<S: Dom>(t: &mut Tape) -> [S; 3] {
    let (v, len) = pythagorean3(t);
    [S::q(v[0], len), S::q(v[1], len), S::q(v[2], len)]
}

/// 2D integer vectors with integer length.
pub fn pythagorean2(t: &mut Tape) -> ([i64; 2], i64) {
    const Q: [([i64; 2], i64); 6] = [([3, 4], 5), ([5, 12], 13), ([8, 15], 17), ([7, 24], 25), ([0, 1], 1), ([20, 21], 29)];
    let (mut v, len) = Q[t.below(Q.len())];
    if t.bool() {
        v.swap(0, 1);
    }
    if t.bool() {
        v[0] = -v[0];
    }
    if t.bool() {
        v[1] = -v[1];
    }
    (v, len)
}

pub fn embed4<S: Dom>(r: &[[S; 3]; 3], tr: &[S; 3]) -> [[S; 4]; 4] {
    let mut m: [[S; 4]; 4] = rf::identity();
    for i in 0..3 {
        for j in 0..3 {
            m[i][j] = r[i][j];
        }
        m[i][3] = tr[i];
    }
    m
}

/// Rigid matrix T*R as a plain array.
pub fn rigid4<S: Dom>(t: &mut Tape) -> [[S; 4]; 4] {
    let r = rotation3::<S>(t);
    let tr = [S::any(t, 20), S::any(t, 20), S::any(t, 20)];
    embed4(&r, &tr)
}

/// A scale factor of either sign with 2^-10 <= |s| <= 2^10, mostly moderate.
pub fn scale_factor<S: Dom>(t: &mut Tape) -> S {
    let sel = t.below(8);
    let s = match sel {
        0 => S::q(1, 1 << t.int(1, 10)),
        1 => S::i(1 << t.int(1, 10)),
        2 => S::i(1),
        _ => {
            let n = t.int(1, 12);
            let d = t.pick(&[1i64, 1, 2, 3, 4, 5]);
            S::q(n, d)
        }
    };
    if t.chance(64) {
        -s
    } else {
        s
    }
}

/// TRS matrix T*R*S (scale applied first) as a plain array, with its parts.
pub fn trs4<S: Dom>(t: &mut Tape) -> ([[S; 4]; 4], [S; 3]) {
    let r = rotation3::<S>(t);
    let s = [scale_factor::<S>(t), scale_factor::<S>(t), scale_factor::<S>(t)];
    let mut rs = r;
    for i in 0..3 {
        for j in 0..3 {
            rs[i][j] = r[i][j] * s[j];
        }
    }
    let tr = [S::any(t, 20), S::any(t, 20), S::any(t, 20)];
    (embed4(&rs, &tr), s)
}
