//! vkit: shared machinery of the vek property checks (tapes, scalar domains, reference math, driver).
pub mod dom;
pub mod driver;
pub mod gens;
pub mod rat;
pub mod refmath;
pub mod regimes;
pub mod sym;
pub mod tape;
pub mod vk;

pub use dom::Dom;
pub use driver::{catch, CaseResult, Check, Cx, Fail, Kind, Property};
pub use rat::Rat;
pub use sym::{Seq, Sym};
pub use tape::Tape;
