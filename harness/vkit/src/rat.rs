//! Exact rational scalar on i128 with a thread-local poison flag.
//!
//! `Rat` implements everything vek asks of a "real" so that the *real* vek code runs in exact
//! arithmetic. Anything it cannot answer exactly (i128 overflow, irrational sqrt, unregistered
//! trigonometric argument, transcendental functions) sets the poison flag and returns 0; the
//! driver discards poisoned cases (and counts them per reason), it never reports them.

use num_traits::{FloatConst, Num, NumCast, One, ToPrimitive, Zero};
use std::cell::{Cell, RefCell};
use std::cmp::Ordering;
use std::fmt;
use std::ops::*;

#[derive(Copy, Clone)]
pub struct Rat {
    n: i128,
    d: i128, // > 0, gcd(n,d) = 1
}

thread_local! {
    static POISON: Cell<Option<&'static str>> = Cell::new(None);
    static ANGLES: RefCell<Vec<(Rat, Rat, Rat)>> = RefCell::new(Vec::new()); // (label, sin, cos)
    static SQRT_CALLS: Cell<u64> = Cell::new(0);
}

pub fn poison(reason: &'static str) {
    POISON.with(|p| {
        if p.get().is_none() {
            p.set(Some(reason))
        }
    });
}
pub fn poisoned() -> Option<&'static str> {
    POISON.with(|p| p.get())
}
/// Reset the per-case state (poison flag and angle registry).
pub fn reset_case_state() {
    POISON.with(|p| p.set(None));
    ANGLES.with(|a| a.borrow_mut().clear());
}

fn gcd(mut a: i128, mut b: i128) -> i128 {
    a = a.abs();
    b = b.abs();
    while b != 0 {
        let t = a % b;
        a = b;
        b = t;
    }
    a
}

const LIMIT: i128 = 1i128 << 120;

impl Rat {
    pub const ZERO: Rat = Rat { n: 0, d: 1 };
    pub const ONE: Rat = Rat { n: 1, d: 1 };
    pub fn new(n: i128, d: i128) -> Rat {
        if d == 0 {
            poison("rat:div0");
            return Rat::ZERO;
        }
        let g = gcd(n, d);
        let (mut n, mut d) = (n / g, d / g);
        if d < 0 {
            n = -n;
            d = -d;
        }
        if n.abs() > LIMIT || d > LIMIT {
            poison("rat:overflow");
            return Rat::ZERO;
        }
        Rat { n, d }
    }
    pub fn int(n: i64) -> Rat {
        Rat { n: n as i128, d: 1 }
    }
    pub fn frac(n: i64, d: i64) -> Rat {
        Rat::new(n as i128, d as i128)
    }
    pub fn numer(&self) -> i128 {
        self.n
    }
    pub fn denom(&self) -> i128 {
        self.d
    }
    pub fn is_integer(&self) -> bool {
        self.d == 1
    }
    pub fn to_f64_lossy(&self) -> f64 {
        self.n as f64 / self.d as f64
    }
    /// Exact conversion of a finite f64 (dyadic rational); poisons when out of range.
    pub fn from_f64_exact(x: f64) -> Rat {
        if !x.is_finite() {
            poison("rat:nonfinite");
            return Rat::ZERO;
        }
        if x == 0.0 {
            return Rat::ZERO;
        }
        let bits = x.to_bits();
        let sign = if bits >> 63 == 1 { -1i128 } else { 1 };
        let exp = ((bits >> 52) & 0x7ff) as i32;
        let frac = (bits & ((1u64 << 52) - 1)) as i128;
        let (mant, e) = if exp == 0 { (frac, -1074) } else { (frac | (1i128 << 52), exp - 1075) };
        let tz = mant.trailing_zeros() as i32;
        let mant = mant >> tz;
        let e = e + tz;
        if e >= 0 {
            if e > 60 {
                poison("rat:overflow");
                return Rat::ZERO;
            }
            Rat::new(sign * (mant << e), 1)
        } else {
            if -e > 110 {
                poison("rat:overflow");
                return Rat::ZERO;
            }
            Rat::new(sign * mant, 1i128 << (-e))
        }
    }
    fn checked(n: Option<i128>, d: Option<i128>) -> Rat {
        match (n, d) {
            (Some(n), Some(d)) => Rat::new(n, d),
            _ => {
                poison("rat:overflow");
                Rat::ZERO
            }
        }
    }
    pub fn floor_int(&self) -> i128 {
        self.n.div_euclid(self.d)
    }
    /// Exact square root if it is rational.
    pub fn exact_sqrt(&self) -> Option<Rat> {
        if self.n < 0 {
            return None;
        }
        let rn = isqrt(self.n)?;
        let rd = isqrt(self.d)?;
        Some(Rat { n: rn, d: rd })
    }
}

fn isqrt(x: i128) -> Option<i128> {
    if x < 0 {
        return None;
    }
    if x < 2 {
        return Some(x);
    }
    let mut r = (x as f64).sqrt() as i128;
    // fix up
    while r * r > x {
        r -= 1;
    }
    while (r + 1) * (r + 1) <= x {
        r += 1;
    }
    if r * r == x {
        Some(r)
    } else {
        None
    }
}

/// Register an angle through u = tan(angle/4). Returns the label (a dyadic rational close to the
/// real angle, so comparisons with 0 and PI behave). Registers label, label/2 (and, on lookup,
/// their negations) with exact rational sin/cos satisfying s^2 + c^2 = 1.
pub fn register_angle_quarter_tan(u: Rat) -> Rat {
    // quarter angle: tan(q) = u
    let real = 4.0 * u.to_f64_lossy().atan();
    let label = Rat::new((real * 1048576.0).round() as i128 * 4, 1048576 * 4); // multiple of 2^-20
    let label = unique_label(label);
    let one = Rat::ONE;
    let two = Rat::int(2);
    let den = one + u * u;
    let sh = two * u / den; // sin(angle/2)
    let ch = (one - u * u) / den; // cos(angle/2)
    let s = two * sh * ch;
    let c = ch * ch - sh * sh;
    let half = label / two;
    ANGLES.with(|a| {
        let mut a = a.borrow_mut();
        a.push((label, s, c));
        a.push((half, sh, ch));
    });
    label
}

/// Register an arbitrary (label, sin, cos) triple; caller guarantees s^2+c^2 = 1.
pub fn register_angle_raw(label: Rat, s: Rat, c: Rat) {
    ANGLES.with(|a| a.borrow_mut().push((label, s, c)));
}

/// Register the sum of two registered angles (label a+b) via the addition formulas, together with its half
/// when both halves are registered.
pub fn register_angle_sum(a: Rat, b: Rat) -> Option<Rat> {
    let (sa, ca) = lookup_angle(a)?;
    let (sb, cb) = lookup_angle(b)?;
    let label = a + b;
    if lookup_angle(label).is_none() {
        register_angle_raw(label, sa * cb + ca * sb, ca * cb - sa * sb);
    }
    let two = Rat::int(2);
    if let (Some((sha, cha)), Some((shb, chb))) = (lookup_angle(a / two), lookup_angle(b / two)) {
        if lookup_angle(label / two).is_none() {
            register_angle_raw(label / two, sha * chb + cha * shb, cha * chb - sha * shb);
        }
    }
    Some(label)
}

fn unique_label(mut label: Rat) -> Rat {
    // make sure neither label nor label/2 collides with an already registered label
    let step = Rat::new(1, 1 << 18);
    loop {
        let half = label / Rat::int(2);
        let clash = ANGLES.with(|a| {
            a.borrow().iter().any(|(l, _, _)| *l == label || *l == -label || *l == half || *l == -half)
        });
        if !clash && !label.is_zero() {
            return label;
        }
        label = label + step;
    }
}

pub fn lookup_angle(x: Rat) -> Option<(Rat, Rat)> {
    if x.is_zero() {
        return Some((Rat::ZERO, Rat::ONE));
    }
    ANGLES.with(|a| {
        for (l, s, c) in a.borrow().iter() {
            if *l == x {
                return Some((*s, *c));
            }
            if *l == -x {
                return Some((-*s, *c));
            }
        }
        None
    })
}

impl fmt::Debug for Rat {
    fn fmt(&self, f: &mut fmt::Formatter) -> fmt::Result {
        if self.d == 1 {
            write!(f, "{}", self.n)
        } else {
            write!(f, "{}/{}", self.n, self.d)
        }
    }
}
impl fmt::Display for Rat {
    fn fmt(&self, f: &mut fmt::Formatter) -> fmt::Result {
        fmt::Debug::fmt(self, f)
    }
}

impl PartialEq for Rat {
    fn eq(&self, o: &Rat) -> bool {
        self.n == o.n && self.d == o.d
    }
}
impl Eq for Rat {}
impl PartialOrd for Rat {
    fn partial_cmp(&self, o: &Rat) -> Option<Ordering> {
        Some(self.cmp(o))
    }
}
impl Ord for Rat {
    fn cmp(&self, o: &Rat) -> Ordering {
        // |n|,|d| <= 2^120: cross products may overflow i128; compare via checked, fall back to f64 + poison
        match (self.n.checked_mul(o.d), o.n.checked_mul(self.d)) {
            (Some(a), Some(b)) => a.cmp(&b),
            _ => {
                poison("rat:overflow");
                Ordering::Equal
            }
        }
    }
}
impl std::hash::Hash for Rat {
    fn hash<H: std::hash::Hasher>(&self, h: &mut H) {
        self.n.hash(h);
        self.d.hash(h);
    }
}

impl Add for Rat {
    type Output = Rat;
    fn add(self, o: Rat) -> Rat {
        if self.d == o.d {
            return Rat::checked(self.n.checked_add(o.n), Some(self.d));
        }
        let g = gcd(self.d, o.d);
        let od = o.d / g;
        let sd = self.d / g;
        let n = self.n.checked_mul(od).and_then(|a| o.n.checked_mul(sd).and_then(|b| a.checked_add(b)));
        let d = self.d.checked_mul(od);
        Rat::checked(n, d)
    }
}
impl Sub for Rat {
    type Output = Rat;
    fn sub(self, o: Rat) -> Rat {
        self + (-o)
    }
}
impl Mul for Rat {
    type Output = Rat;
    fn mul(self, o: Rat) -> Rat {
        let g1 = gcd(self.n, o.d).max(1);
        let g2 = gcd(o.n, self.d).max(1);
        let n = (self.n / g1).checked_mul(o.n / g2);
        let d = (self.d / g2).checked_mul(o.d / g1);
        Rat::checked(n, d)
    }
}
impl Div for Rat {
    type Output = Rat;
    fn div(self, o: Rat) -> Rat {
        if o.n == 0 {
            poison("rat:div0");
            return Rat::ZERO;
        }
        let (on, od) = if o.n < 0 { (-o.d, -o.n) } else { (o.d, o.n) };
        self * Rat { n: on, d: od }
    }
}
impl Rem for Rat {
    type Output = Rat;
    fn rem(self, o: Rat) -> Rat {
        if o.n == 0 {
            poison("rat:div0");
            return Rat::ZERO;
        }
        // truncated remainder, like f64 %
        let q = self / o;
        let t = Rat::int_big(q.n / q.d);
        self - t * o
    }
}
impl Rat {
    fn int_big(n: i128) -> Rat {
        Rat::new(n, 1)
    }
}
impl Neg for Rat {
    type Output = Rat;
    fn neg(self) -> Rat {
        Rat { n: -self.n, d: self.d }
    }
}
macro_rules! assign_ops {
    ($($Tr:ident $f:ident $op:tt),*) => {$(
        impl $Tr for Rat { fn $f(&mut self, o: Rat) { *self = *self $op o; } }
    )*}
}
assign_ops!(AddAssign add_assign +, SubAssign sub_assign -, MulAssign mul_assign *, DivAssign div_assign /, RemAssign rem_assign %);

impl Zero for Rat {
    fn zero() -> Rat {
        Rat::ZERO
    }
    fn is_zero(&self) -> bool {
        self.n == 0
    }
}
impl One for Rat {
    fn one() -> Rat {
        Rat::ONE
    }
}
impl Num for Rat {
    type FromStrRadixErr = ();
    fn from_str_radix(_: &str, _: u32) -> Result<Rat, ()> {
        Err(())
    }
}
impl Default for Rat {
    fn default() -> Rat {
        Rat::ZERO
    }
}
impl ToPrimitive for Rat {
    fn to_i64(&self) -> Option<i64> {
        let t = self.n / self.d;
        if t >= i64::MIN as i128 && t <= i64::MAX as i128 {
            Some(t as i64)
        } else {
            None
        }
    }
    fn to_u64(&self) -> Option<u64> {
        let t = self.n / self.d;
        if t >= 0 && t <= u64::MAX as i128 {
            Some(t as u64)
        } else {
            None
        }
    }
    fn to_f64(&self) -> Option<f64> {
        Some(self.to_f64_lossy())
    }
    fn to_f32(&self) -> Option<f32> {
        Some(self.to_f64_lossy() as f32)
    }
}
impl NumCast for Rat {
    fn from<T: ToPrimitive>(n: T) -> Option<Rat> {
        // integers exactly, floats exactly when finite
        if let Some(i) = n.to_i64() {
            // may be a truncated float: compare through f64
            if let Some(f) = n.to_f64() {
                if f == i as f64 {
                    return Some(Rat::int(i));
                }
                return Some(Rat::from_f64_exact(f));
            }
            return Some(Rat::int(i));
        }
        n.to_f64().map(Rat::from_f64_exact)
    }
}
impl From<u8> for Rat {
    fn from(x: u8) -> Rat {
        Rat::int(x as i64)
    }
}
impl From<u16> for Rat {
    fn from(x: u16) -> Rat {
        Rat::int(x as i64)
    }
}
impl From<i32> for Rat {
    fn from(x: i32) -> Rat {
        Rat::int(x as i64)
    }
}
impl From<i64> for Rat {
    fn from(x: i64) -> Rat {
        Rat::int(x)
    }
}

impl num_traits::ops::mul_add::MulAdd for Rat {
    type Output = Rat;
    fn mul_add(self, a: Rat, b: Rat) -> Rat {
        self * a + b
    }
}

fn transcendental(name: &'static str) -> Rat {
    poison(name);
    Rat::ZERO
}

/// Rational approximation of pi used as `FloatConst::PI()`: exact value of the f64 constant.
pub fn rat_pi() -> Rat {
    Rat::from_f64_exact(std::f64::consts::PI)
}

impl num_traits::real::Real for Rat {
    fn min_value() -> Rat {
        Rat::new(-(1i128 << 100), 1)
    }
    fn min_positive_value() -> Rat {
        Rat::new(1, 1i128 << 100)
    }
    fn epsilon() -> Rat {
        Rat::new(1, 1i128 << 52)
    }
    fn max_value() -> Rat {
        Rat::new(1i128 << 100, 1)
    }
    fn floor(self) -> Rat {
        Rat::int_big(self.n.div_euclid(self.d))
    }
    fn ceil(self) -> Rat {
        -((-self).floor())
    }
    fn round(self) -> Rat {
        // half away from zero
        let half = Rat::new(1, 2);
        if self.n >= 0 {
            (self + half).floor()
        } else {
            -((-self + half).floor())
        }
    }
    fn trunc(self) -> Rat {
        Rat::int_big(self.n / self.d)
    }
    fn fract(self) -> Rat {
        self - self.trunc()
    }
    fn abs(self) -> Rat {
        Rat { n: self.n.abs(), d: self.d }
    }
    fn signum(self) -> Rat {
        // floats: signum(+0) = 1; use 1 for zero like f64::signum(0.0)
        if self.n < 0 {
            -Rat::ONE
        } else {
            Rat::ONE
        }
    }
    fn is_sign_positive(self) -> bool {
        self.n >= 0
    }
    fn is_sign_negative(self) -> bool {
        self.n < 0
    }
    fn mul_add(self, a: Rat, b: Rat) -> Rat {
        self * a + b
    }
    fn recip(self) -> Rat {
        Rat::ONE / self
    }
    fn powi(self, n: i32) -> Rat {
        let mut r = Rat::ONE;
        for _ in 0..n.unsigned_abs() {
            r = r * self;
        }
        if n < 0 {
            Rat::ONE / r
        } else {
            r
        }
    }
    fn powf(self, _: Rat) -> Rat {
        transcendental("rat:powf")
    }
    fn sqrt(self) -> Rat {
        SQRT_CALLS.with(|c| c.set(c.get() + 1));
        match self.exact_sqrt() {
            Some(r) => r,
            None => {
                poison(if self.n < 0 { "rat:sqrt-negative" } else { "rat:irrational-sqrt" });
                Rat::ZERO
            }
        }
    }
    fn exp(self) -> Rat {
        transcendental("rat:exp")
    }
    fn exp2(self) -> Rat {
        transcendental("rat:exp2")
    }
    fn ln(self) -> Rat {
        transcendental("rat:ln")
    }
    fn log(self, _: Rat) -> Rat {
        transcendental("rat:log")
    }
    fn log2(self) -> Rat {
        transcendental("rat:log2")
    }
    fn log10(self) -> Rat {
        transcendental("rat:log10")
    }
    fn to_degrees(self) -> Rat {
        transcendental("rat:to_degrees")
    }
    fn to_radians(self) -> Rat {
        transcendental("rat:to_radians")
    }
    fn max(self, o: Rat) -> Rat {
        if self >= o {
            self
        } else {
            o
        }
    }
    fn min(self, o: Rat) -> Rat {
        if self <= o {
            self
        } else {
            o
        }
    }
    fn abs_sub(self, o: Rat) -> Rat {
        if self <= o {
            Rat::ZERO
        } else {
            self - o
        }
    }
    fn cbrt(self) -> Rat {
        transcendental("rat:cbrt")
    }
    fn hypot(self, o: Rat) -> Rat {
        num_traits::real::Real::sqrt(self * self + o * o)
    }
    fn sin(self) -> Rat {
        match lookup_angle(self) {
            Some((s, _)) => s,
            None => transcendental("rat:unregistered-angle"),
        }
    }
    fn cos(self) -> Rat {
        match lookup_angle(self) {
            Some((_, c)) => c,
            None => transcendental("rat:unregistered-angle"),
        }
    }
    fn tan(self) -> Rat {
        match lookup_angle(self) {
            Some((s, c)) => s / c,
            None => transcendental("rat:unregistered-angle"),
        }
    }
    fn asin(self) -> Rat {
        transcendental("rat:asin")
    }
    fn acos(self) -> Rat {
        transcendental("rat:acos")
    }
    fn atan(self) -> Rat {
        transcendental("rat:atan")
    }
    fn atan2(self, _: Rat) -> Rat {
        transcendental("rat:atan2")
    }
    fn sin_cos(self) -> (Rat, Rat) {
        match lookup_angle(self) {
            Some(sc) => sc,
            None => (transcendental("rat:unregistered-angle"), Rat::ZERO),
        }
    }
    fn exp_m1(self) -> Rat {
        transcendental("rat:exp_m1")
    }
    fn ln_1p(self) -> Rat {
        transcendental("rat:ln_1p")
    }
    fn sinh(self) -> Rat {
        transcendental("rat:sinh")
    }
    fn cosh(self) -> Rat {
        transcendental("rat:cosh")
    }
    fn tanh(self) -> Rat {
        transcendental("rat:tanh")
    }
    fn asinh(self) -> Rat {
        transcendental("rat:asinh")
    }
    fn acosh(self) -> Rat {
        transcendental("rat:acosh")
    }
    fn atanh(self) -> Rat {
        transcendental("rat:atanh")
    }
}

#[allow(non_snake_case)]
impl FloatConst for Rat {
    fn E() -> Rat {
        Rat::from_f64_exact(std::f64::consts::E)
    }
    fn FRAC_1_PI() -> Rat {
        Rat::from_f64_exact(std::f64::consts::FRAC_1_PI)
    }
    fn FRAC_1_SQRT_2() -> Rat {
        Rat::from_f64_exact(std::f64::consts::FRAC_1_SQRT_2)
    }
    fn FRAC_2_PI() -> Rat {
        Rat::from_f64_exact(std::f64::consts::FRAC_2_PI)
    }
    fn FRAC_2_SQRT_PI() -> Rat {
        Rat::from_f64_exact(std::f64::consts::FRAC_2_SQRT_PI)
    }
    fn FRAC_PI_2() -> Rat {
        Rat::from_f64_exact(std::f64::consts::FRAC_PI_2)
    }
    fn FRAC_PI_3() -> Rat {
        Rat::from_f64_exact(std::f64::consts::FRAC_PI_3)
    }
    fn FRAC_PI_4() -> Rat {
        Rat::from_f64_exact(std::f64::consts::FRAC_PI_4)
    }
    fn FRAC_PI_6() -> Rat {
        Rat::from_f64_exact(std::f64::consts::FRAC_PI_6)
    }
    fn FRAC_PI_8() -> Rat {
        Rat::from_f64_exact(std::f64::consts::FRAC_PI_8)
    }
    fn LN_10() -> Rat {
        Rat::from_f64_exact(std::f64::consts::LN_10)
    }
    fn LN_2() -> Rat {
        Rat::from_f64_exact(std::f64::consts::LN_2)
    }
    fn LOG10_E() -> Rat {
        Rat::from_f64_exact(std::f64::consts::LOG10_E)
    }
    fn LOG2_E() -> Rat {
        Rat::from_f64_exact(std::f64::consts::LOG2_E)
    }
    fn PI() -> Rat {
        rat_pi()
    }
    fn SQRT_2() -> Rat {
        Rat::from_f64_exact(std::f64::consts::SQRT_2)
    }
}

// approx: exact semantics with the given tolerances.
impl approx::AbsDiffEq for Rat {
    type Epsilon = Rat;
    fn default_epsilon() -> Rat {
        <Rat as num_traits::real::Real>::epsilon()
    }
    fn abs_diff_eq(&self, o: &Rat, eps: Rat) -> bool {
        num_traits::real::Real::abs(*self - *o) <= eps
    }
}
impl approx::RelativeEq for Rat {
    fn default_max_relative() -> Rat {
        <Rat as num_traits::real::Real>::epsilon()
    }
    fn relative_eq(&self, o: &Rat, eps: Rat, max_rel: Rat) -> bool {
        use num_traits::real::Real;
        if self == o {
            return true;
        }
        let diff = Real::abs(*self - *o);
        if diff <= eps {
            return true;
        }
        let largest = Real::max(Real::abs(*self), Real::abs(*o));
        diff <= largest * max_rel
    }
}
impl approx::UlpsEq for Rat {
    fn default_max_ulps() -> u32 {
        4
    }
    fn ulps_eq(&self, o: &Rat, eps: Rat, _max_ulps: u32) -> bool {
        use approx::AbsDiffEq;
        self.abs_diff_eq(o, eps)
    }
}

// vek's own traits
impl vek::ops::Clamp for Rat {
    fn clamped(self, lower: Rat, upper: Rat) -> Rat {
        assert!(lower <= upper);
        vek::ops::partial_min(vek::ops::partial_max(self, lower), upper)
    }
}
impl vek::ops::IsBetween for Rat {
    type Output = bool;
    fn is_between(self, lower: Rat, upper: Rat) -> bool {
        assert!(lower <= upper);
        lower <= self && self <= upper
    }
}
impl vek::ops::Lerp<Rat> for Rat {
    type Output = Rat;
    fn lerp_unclamped_precise(from: Rat, to: Rat, factor: Rat) -> Rat {
        from * (Rat::ONE - factor) + to * factor
    }
    fn lerp_unclamped(from: Rat, to: Rat, factor: Rat) -> Rat {
        factor * (to - from) + from
    }
}
impl<'a> vek::ops::Lerp<Rat> for &'a Rat {
    type Output = Rat;
    fn lerp_unclamped_precise(from: &Rat, to: &Rat, factor: Rat) -> Rat {
        <Rat as vek::ops::Lerp<Rat>>::lerp_unclamped_precise(*from, *to, factor)
    }
    fn lerp_unclamped(from: &Rat, to: &Rat, factor: Rat) -> Rat {
        <Rat as vek::ops::Lerp<Rat>>::lerp_unclamped(*from, *to, factor)
    }
}
impl vek::ops::ColorComponent for Rat {
    fn full() -> Rat {
        Rat::ONE
    }
}

#[cfg(test)]
mod tests {
    use super::*;
    use num_traits::real::Real;
    #[test]
    fn arithmetic_matches_bruteforce() {
        reset_case_state();
        for an in -6i64..=6 {
            for ad in 1i64..=5 {
                for bn in -6i64..=6 {
                    for bd in 1i64..=5 {
                        let a = Rat::frac(an, ad);
                        let b = Rat::frac(bn, bd);
                        let s = a + b;
                        assert_eq!(s.n * (ad * bd) as i128, (an * bd + bn * ad) as i128 * s.d);
                        let p = a * b;
                        assert_eq!(p.n * (ad * bd) as i128, (an * bn) as i128 * p.d);
                        assert_eq!(a < b, an * bd < bn * ad);
                        if bn != 0 {
                            let q = a / b;
                            assert_eq!(q * b, a);
                            let r = a % b;
                            let fa = an as f64 / ad as f64;
                            let fb = bn as f64 / bd as f64;
                            let e = (r.to_f64_lossy() - fa % fb).abs();
                            assert!(e < 1e-9 || (e - fb.abs()).abs() < 1e-9, "{a:?} % {b:?} = {r:?} vs {}", fa % fb);
                        }
                        assert!(gcd(s.n, s.d) == 1 || s.n == 0);
                    }
                }
            }
        }
        assert!(poisoned().is_none());
    }
    #[test]
    fn rounding() {
        assert_eq!(Rat::frac(5, 2).round(), Rat::int(3));
        assert_eq!(Rat::frac(-5, 2).round(), Rat::int(-3));
        assert_eq!(Rat::frac(-7, 2).floor(), Rat::int(-4));
        assert_eq!(Rat::frac(-7, 2).ceil(), Rat::int(-3));
        assert_eq!(Rat::frac(-7, 2).trunc(), Rat::int(-3));
        assert_eq!(Rat::frac(9, 4).sqrt(), Rat::frac(3, 2));
        assert_eq!(Rat::from_f64_exact(0.375), Rat::frac(3, 8));
        assert_eq!(Rat::from_f64_exact(-6.0), Rat::int(-6));
    }
    #[test]
    fn angles() {
        reset_case_state();
        let a = register_angle_quarter_tan(Rat::frac(1, 3));
        let (s, c) = lookup_angle(a).unwrap();
        assert_eq!(s * s + c * c, Rat::ONE);
        let (sh, ch) = lookup_angle(a / Rat::int(2)).unwrap();
        assert_eq!(sh * sh + ch * ch, Rat::ONE);
        assert_eq!(Rat::int(2) * sh * ch, s);
        assert!((s.to_f64_lossy() - a.to_f64_lossy().sin()).abs() < 1e-5);
        let b = register_angle_quarter_tan(Rat::frac(-2, 5));
        let ab = register_angle_sum(a, b).unwrap();
        let (sab, cab) = lookup_angle(ab).unwrap();
        assert_eq!(sab * sab + cab * cab, Rat::ONE);
        assert!((sab.to_f64_lossy() - ab.to_f64_lossy().sin()).abs() < 1e-5);
        assert!(lookup_angle(ab / Rat::int(2)).is_some());
        assert!(poisoned().is_none());
        let _ = Rat::frac(1, 7).sin();
        assert!(poisoned().is_some());
        reset_case_state();
    }
}
