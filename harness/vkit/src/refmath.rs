//! Reference linear algebra on plain arrays, written from the textbook definitions.
//! Nothing here calls into vek.

use std::ops::{Add, Div, Mul, Neg, Sub};

pub trait Ring: Copy + Add<Output = Self> + Sub<Output = Self> + Mul<Output = Self> + Neg<Output = Self> + PartialEq {
    fn zero() -> Self;
    fn one() -> Self;
}
impl<T> Ring for T
where
    T: Copy + Add<Output = T> + Sub<Output = T> + Mul<Output = T> + Neg<Output = T> + PartialEq + num_traits::Zero + num_traits::One,
{
    fn zero() -> T {
        <T as num_traits::Zero>::zero()
    }
    fn one() -> T {
        <T as num_traits::One>::one()
    }
}

pub type M<S, const N: usize> = [[S; N]; N];

pub fn identity<S: Ring, const N: usize>() -> M<S, N> {
    let mut m = [[S::zero(); N]; N];
    for i in 0..N {
        m[i][i] = S::one();
    }
    m
}

/// (A*B)[i][j] = sum_k A[i][k] * B[k][j]
pub fn matmul<S: Ring, const N: usize>(a: &M<S, N>, b: &M<S, N>) -> M<S, N> {
    let mut r = [[S::zero(); N]; N];
    for i in 0..N {
        for j in 0..N {
            let mut acc = S::zero();
            for k in 0..N {
                acc = acc + a[i][k] * b[k][j];
            }
            r[i][j] = acc;
        }
    }
    r
}

/// Matrix times column vector.
pub fn matvec<S: Ring, const N: usize>(a: &M<S, N>, v: &[S; N]) -> [S; N] {
    let mut r = [S::zero(); N];
    for i in 0..N {
        let mut acc = S::zero();
        for k in 0..N {
            acc = acc + a[i][k] * v[k];
        }
        r[i] = acc;
    }
    r
}

/// Row vector times matrix.
pub fn vecmat<S: Ring, const N: usize>(v: &[S; N], a: &M<S, N>) -> [S; N] {
    let mut r = [S::zero(); N];
    for j in 0..N {
        let mut acc = S::zero();
        for k in 0..N {
            acc = acc + v[k] * a[k][j];
        }
        r[j] = acc;
    }
    r
}

pub fn transpose<S: Copy, const N: usize>(a: &M<S, N>) -> M<S, N> {
    let mut r = *a;
    for i in 0..N {
        for j in 0..N {
            r[i][j] = a[j][i];
        }
    }
    r
}

fn permutations(n: usize) -> Vec<(Vec<usize>, bool)> {
    // all permutations of 0..n with parity (true = odd)
    fn rec(cur: &mut Vec<usize>, used: &mut Vec<bool>, n: usize, out: &mut Vec<(Vec<usize>, bool)>) {
        if cur.len() == n {
            let mut inv = 0;
            for i in 0..n {
                for j in i + 1..n {
                    if cur[i] > cur[j] {
                        inv += 1;
                    }
                }
            }
            out.push((cur.clone(), inv % 2 == 1));
            return;
        }
        for x in 0..n {
            if !used[x] {
                used[x] = true;
                cur.push(x);
                rec(cur, used, n, out);
                cur.pop();
                used[x] = false;
            }
        }
    }
    let mut out = Vec::new();
    rec(&mut Vec::new(), &mut vec![false; n], n, &mut out);
    out
}

/// Leibniz determinant: sum over permutations of sign * prod a[i][p(i)].
pub fn det<S: Ring, const N: usize>(a: &M<S, N>) -> S {
    let mut acc = S::zero();
    for (p, odd) in permutations(N) {
        let mut term = S::one();
        for i in 0..N {
            term = term * a[i][p[i]];
        }
        acc = if odd { acc - term } else { acc + term };
    }
    acc
}

fn det_dyn<S: Ring>(a: &Vec<Vec<S>>) -> S {
    let n = a.len();
    if n == 0 {
        return S::one();
    }
    let mut acc = S::zero();
    for (p, odd) in permutations(n) {
        let mut term = S::one();
        for i in 0..n {
            term = term * a[i][p[i]];
        }
        acc = if odd { acc - term } else { acc + term };
    }
    acc
}

/// Inverse by the adjugate (cofactor) formula; `None` when det = 0.
pub fn inverse<S: Ring + Div<Output = S>, const N: usize>(a: &M<S, N>) -> Option<M<S, N>> {
    let d = det(a);
    if d == S::zero() {
        return None;
    }
    let mut r = [[S::zero(); N]; N];
    for i in 0..N {
        for j in 0..N {
            // cofactor C[i][j] = (-1)^(i+j) * minor(i,j); inverse[j][i] = C[i][j] / det
            let mut minor: Vec<Vec<S>> = Vec::new();
            for ii in 0..N {
                if ii == i {
                    continue;
                }
                let mut row = Vec::new();
                for jj in 0..N {
                    if jj == j {
                        continue;
                    }
                    row.push(a[ii][jj]);
                }
                minor.push(row);
            }
            let m = det_dyn(&minor);
            let c = if (i + j) % 2 == 1 { -m } else { m };
            r[j][i] = c / d;
        }
    }
    Some(r)
}

pub fn dot<S: Ring, const N: usize>(a: &[S; N], b: &[S; N]) -> S {
    let mut acc = S::zero();
    for i in 0..N {
        acc = acc + a[i] * b[i];
    }
    acc
}

pub fn cross<S: Ring>(a: &[S; 3], b: &[S; 3]) -> [S; 3] {
    [a[1] * b[2] - a[2] * b[1], a[2] * b[0] - a[0] * b[2], a[0] * b[1] - a[1] * b[0]]
}

pub fn scale<S: Ring, const N: usize>(a: &[S; N], k: S) -> [S; N] {
    let mut r = *a;
    for i in 0..N {
        r[i] = a[i] * k;
    }
    r
}
pub fn addv<S: Ring, const N: usize>(a: &[S; N], b: &[S; N]) -> [S; N] {
    let mut r = *a;
    for i in 0..N {
        r[i] = a[i] + b[i];
    }
    r
}
pub fn subv<S: Ring, const N: usize>(a: &[S; N], b: &[S; N]) -> [S; N] {
    let mut r = *a;
    for i in 0..N {
        r[i] = a[i] - b[i];
    }
    r
}

/// Rotation of `v` about the *unit* axis `k` by the angle with the given sine and cosine, from the
/// axis-angle definition: v cos + (k x v) sin + k (k.v)(1 - cos).
pub fn rodrigues<S: Ring>(v: &[S; 3], k: &[S; 3], s: S, c: S) -> [S; 3] {
    let kxv = cross(k, v);
    let kv = dot(k, v);
    let one_c = S::one() - c;
    let mut r = [S::zero(); 3];
    for i in 0..3 {
        r[i] = v[i] * c + kxv[i] * s + k[i] * kv * one_c;
    }
    r
}

/// Hamilton product from the i,j,k multiplication table. Quaternions as (w, x, y, z).
pub fn hamilton<S: Ring>(p: &[S; 4], q: &[S; 4]) -> [S; 4] {
    // basis index 0=1, 1=i, 2=j, 3=k ; table[a][b] = (sign, index)
    const T: [[(i8, usize); 4]; 4] = [
        [(1, 0), (1, 1), (1, 2), (1, 3)],
        [(1, 1), (-1, 0), (1, 3), (-1, 2)],
        [(1, 2), (-1, 3), (-1, 0), (1, 1)],
        [(1, 3), (1, 2), (-1, 1), (-1, 0)],
    ];
    let mut r = [S::zero(); 4];
    for a in 0..4 {
        for b in 0..4 {
            let (sg, idx) = T[a][b];
            let term = p[a] * q[b];
            r[idx] = if sg > 0 { r[idx] + term } else { r[idx] - term };
        }
    }
    r
}

#[cfg(test)]
mod tests {
    use super::*;
    #[test]
    fn det_and_inverse() {
        let a: M<f64, 3> = [[2.0, 0.0, 1.0], [1.0, 3.0, 2.0], [1.0, 1.0, 4.0]];
        assert_eq!(det(&a), 2.0 * (12.0 - 2.0) - 0.0 + 1.0 * (1.0 - 3.0));
        let inv = inverse(&a).unwrap();
        let p = matmul(&a, &inv);
        for i in 0..3 {
            for j in 0..3 {
                assert!((p[i][j] - if i == j { 1.0 } else { 0.0 }).abs() < 1e-12);
            }
        }
        let i4: M<i64, 4> = identity();
        assert_eq!(det(&i4), 1);
        let sw: M<i64, 4> = [[0, 1, 0, 0], [1, 0, 0, 0], [0, 0, 1, 0], [0, 0, 0, 1]];
        assert_eq!(det(&sw), -1);
    }
    #[test]
    fn hamilton_table() {
        let i = [0, 1, 0, 0i64];
        let j = [0, 0, 1, 0i64];
        let k = [0, 0, 0, 1i64];
        assert_eq!(hamilton(&i, &j), k);
        assert_eq!(hamilton(&j, &k), i);
        assert_eq!(hamilton(&k, &i), j);
        assert_eq!(hamilton(&j, &i), [0, 0, 0, -1]);
        assert_eq!(hamilton(&i, &i), [-1, 0, 0, 0]);
    }
    #[test]
    fn rodrigues_z() {
        // rotate x about z by 90 degrees -> y
        let r = rodrigues(&[1.0, 0.0, 0.0], &[0.0, 0.0, 1.0], 1.0, 0.0);
        assert_eq!(r, [0.0, 1.0, 0.0]);
    }
}
