//! Regime generators: magnitudes, angles and special values that ordinary "moderate" sampling never
//! reaches. Every property check should spend a fixed share of its float cases here; the properties quantify
//! over *all* inputs, and realistic defects hide in fast paths, absolute-epsilon guards and cancellation
//! that only show at unusual scales.
//!
//! All values are exact functions of the tape (monotone: byte 0 -> the mildest choice).

use crate::dom::Dom;
use crate::tape::Tape;

/// Exactly 2^k in the domain (k may be negative). For floats, k is assumed to stay inside the normal range.
pub fn pow2<S: Dom>(k: i32) -> S {
    let two = S::i(2);
    let half = S::q(1, 2);
    let mut r = S::i(1);
    for _ in 0..k.unsigned_abs() {
        r = r * if k > 0 { two } else { half };
    }
    r
}

/// Largest |k| such that values of magnitude ~2^k can be squared, multiplied four-fold (4x4 determinants)
/// and summed without leaving the normal range of the domain: f32 -> 24, f64 -> 200, Rat -> 24 (i128 headroom).
pub fn safe_exp<S: Dom>() -> i32 {
    match S::NAME {
        "f32" => 24,
        "f64" => 200,
        _ => 24,
    }
}

/// A unit-of-length exponent: 0 in half of the cases, otherwise stratified over [-kmax, kmax]
/// (moderate, large, extreme; both signs). Use it to scale *all lengths* of a case by `pow2(k)`.
pub fn scale_exp(t: &mut Tape, kmax: i32) -> i32 {
    if !t.bool() {
        return 0;
    }
    let k = match t.below(4) {
        0 => t.int(1, (kmax / 4).max(1) as i64),
        1 => t.int((kmax / 4).max(1) as i64, (kmax / 2).max(1) as i64),
        _ => t.int((kmax / 2).max(1) as i64, kmax as i64),
    } as i32;
    if t.bool() {
        -k
    } else {
        k
    }
}

/// Label for a scale exponent (for `cx.label`).
pub fn scale_label(k: i32) -> &'static str {
    match k {
        0 => "unit scale",
        k if k <= -40 => "scale <= 2^-40",
        k if k <= -12 => "scale 2^-39..2^-12",
        k if k < 0 => "scale 2^-11..2^-1",
        k if k < 12 => "scale 2^1..2^11",
        k if k < 40 => "scale 2^12..2^39",
        _ => "scale >= 2^40",
    }
}

/// An angle in radians from one of the regimes {ordinary, small (down to 2^-kmin_exp), near a multiple of
/// pi/2, many turns (up to ~2^turns_exp rad)} as f64, plus its label. Float domains convert with `as`.
pub fn angle_regime(t: &mut Tape, min_exp: i32, turns_exp: i32) -> (f64, &'static str) {
    let sign = if t.bool() { -1.0 } else { 1.0 };
    match t.below(8) {
        0 | 1 | 2 => (sign * t.range_f64(0.0, std::f64::consts::PI), "ordinary angle"),
        3 | 4 => {
            // log-uniform small angle 2^-e * (1 + u)
            let e = t.int(3, min_exp.max(4) as i64) as i32;
            (sign * (2.0f64).powi(-e) * (1.0 + t.unit_f64()), "small angle")
        }
        5 => {
            let q = t.int(0, 8) as f64;
            let d = (2.0f64).powi(-(t.int(8, min_exp.max(9) as i64) as i32));
            (sign * (q * std::f64::consts::FRAC_PI_2 + if t.bool() { d } else { -d }), "next to a multiple of pi/2")
        }
        _ => {
            let e = t.int(3, turns_exp.max(4) as i64) as i32;
            (sign * (2.0f64).powi(e) * (1.0 + t.unit_f64()), "many turns")
        }
    }
}

/// IEEE special values and near-limit finite values for a float type.
pub trait Special: Copy {
    /// +-0, +-1, +-inf, NaN, MIN_POSITIVE, a subnormal, MAX, -MAX, EPSILON, 1+EPSILON, 1-EPSILON/2
    fn specials() -> [Self; 15];
    fn same_bits(a: Self, b: Self) -> bool;
}
macro_rules! special_impl {
    ($F:ident) => {
        impl Special for $F {
            fn specials() -> [$F; 15] {
                [0.0, -0.0, 1.0, -1.0, $F::INFINITY, $F::NEG_INFINITY, $F::NAN, $F::MIN_POSITIVE, $F::MIN_POSITIVE / 4.0, $F::MAX, -$F::MAX, $F::EPSILON, 1.0 + $F::EPSILON, 1.0 - $F::EPSILON / 2.0, -$F::MIN_POSITIVE]
            }
            fn same_bits(a: $F, b: $F) -> bool {
                (a.is_nan() && b.is_nan()) || a.to_bits() == b.to_bits()
            }
        }
    };
}
special_impl!(f32);
special_impl!(f64);

/// Integer values next to the limits of an integer type given as (min, max): limits, limits -+ 1,
/// powers of two -+ 1, 0, +-1, and the two values around the f32 / f64 exact-integer bounds (2^24, 2^53).
pub fn int_edge(t: &mut Tape, min: i128, max: i128) -> i128 {
    let c = |x: i128| x.clamp(min, max);
    match t.below(12) {
        0 => 0,
        1 => c(1),
        2 => c(-1),
        3 => max,
        4 => min,
        5 => c(max - 1 - t.below(3) as i128),
        6 => c(min + 1 + t.below(3) as i128),
        7 => c((1i128 << 24) + t.int(-2, 2) as i128),
        8 => c((1i128 << 53) + t.int(-2, 2) as i128),
        9 => c((1i128 << t.int(1, 126)) + t.int(-1, 1) as i128),
        10 => c(-((1i128 << t.int(1, 126)) + t.int(-1, 1) as i128)),
        _ => c(max / 2 + t.int(-2, 2) as i128),
    }
}
