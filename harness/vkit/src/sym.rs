//! Opaque symbolic terms and free-monoid elements: element types under which position,
//! order and the applied operator are observable independent of numeric values.

use num_traits::{One, Zero};
use std::cell::RefCell;
use std::collections::HashMap;
use std::fmt;
use std::ops::*;

use crate::tape::mix64;

/// An opaque term. Every operator returns a fresh term id = hash(opcode, operands), so
/// `a+b != b+a != a-b`; equality of terms means "same expression tree".
#[derive(Copy, Clone, PartialEq, Eq, Hash, PartialOrd, Ord)]
pub struct Sym(pub u64);

thread_local! {
    static NAMES: RefCell<HashMap<u64, String>> = RefCell::new(HashMap::new());
}

pub fn reset_sym_names() {
    NAMES.with(|n| n.borrow_mut().clear());
}

fn name_of(id: u64) -> String {
    NAMES.with(|n| n.borrow().get(&id).cloned()).unwrap_or_else(|| format!("#{:x}", id & 0xffff_ffff))
}

impl Sym {
    /// Atom number k (distinct ids for distinct k).
    pub fn atom(k: u32) -> Sym {
        let id = mix64(0xA70A_0000_0000 + k as u64);
        NAMES.with(|n| {
            n.borrow_mut().entry(id).or_insert_with(|| format!("s{}", k));
        });
        Sym(id)
    }
    pub fn named(name: &str) -> Sym {
        let id = mix64(crate::tape::hash_str(name) ^ 0x4e41_4d45);
        NAMES.with(|n| {
            n.borrow_mut().entry(id).or_insert_with(|| name.to_string());
        });
        Sym(id)
    }
    pub fn op1(op: &'static str, a: Sym) -> Sym {
        let id = mix64(mix64(crate::tape::hash_str(op)) ^ a.0.rotate_left(17));
        NAMES.with(|n| {
            let mut n = n.borrow_mut();
            if !n.contains_key(&id) {
                let s = format!("{}({})", op, n.get(&a.0).cloned().unwrap_or_else(|| format!("#{:x}", a.0 & 0xffff)));
                n.insert(id, s);
            }
        });
        Sym(id)
    }
    pub fn op2(op: &'static str, a: Sym, b: Sym) -> Sym {
        let id = mix64(mix64(mix64(crate::tape::hash_str(op)) ^ a.0.rotate_left(17)) ^ b.0.rotate_left(41));
        NAMES.with(|n| {
            let mut n = n.borrow_mut();
            if !n.contains_key(&id) {
                let f = |n: &HashMap<u64, String>, x: u64| n.get(&x).cloned().unwrap_or_else(|| format!("#{:x}", x & 0xffff));
                let s = format!("({} {} {})", f(&n, a.0), op, f(&n, b.0));
                if s.len() < 400 {
                    n.insert(id, s);
                }
            }
        });
        Sym(id)
    }
    pub fn op3(op: &'static str, a: Sym, b: Sym, c: Sym) -> Sym {
        let id = mix64(mix64(mix64(mix64(crate::tape::hash_str(op)) ^ a.0.rotate_left(17)) ^ b.0.rotate_left(41)) ^ c.0.rotate_left(7));
        NAMES.with(|n| {
            let mut n = n.borrow_mut();
            if !n.contains_key(&id) {
                let f = |n: &HashMap<u64, String>, x: u64| n.get(&x).cloned().unwrap_or_else(|| format!("#{:x}", x & 0xffff));
                let s = format!("{}({}, {}, {})", op, f(&n, a.0), f(&n, b.0), f(&n, c.0));
                if s.len() < 400 {
                    n.insert(id, s);
                }
            }
        });
        Sym(id)
    }
}

impl fmt::Debug for Sym {
    fn fmt(&self, f: &mut fmt::Formatter) -> fmt::Result {
        write!(f, "{}", name_of(self.0))
    }
}
impl fmt::Display for Sym {
    fn fmt(&self, f: &mut fmt::Formatter) -> fmt::Result {
        write!(f, "{}", name_of(self.0))
    }
}
impl Default for Sym {
    fn default() -> Sym {
        Sym::named("default")
    }
}

macro_rules! sym_binop {
    ($($Tr:ident $f:ident $TrA:ident $fa:ident $name:expr),*) => {$(
        impl $Tr for Sym { type Output = Sym; fn $f(self, o: Sym) -> Sym { Sym::op2($name, self, o) } }
        impl<'a> $Tr<&'a Sym> for Sym { type Output = Sym; fn $f(self, o: &Sym) -> Sym { Sym::op2($name, self, *o) } }
        impl<'a> $Tr<Sym> for &'a Sym { type Output = Sym; fn $f(self, o: Sym) -> Sym { Sym::op2($name, *self, o) } }
        impl<'a, 'b> $Tr<&'b Sym> for &'a Sym { type Output = Sym; fn $f(self, o: &Sym) -> Sym { Sym::op2($name, *self, *o) } }
        impl $TrA for Sym { fn $fa(&mut self, o: Sym) { *self = Sym::op2($name, *self, o); } }
        impl<'a> $TrA<&'a Sym> for Sym { fn $fa(&mut self, o: &Sym) { *self = Sym::op2($name, *self, *o); } }
    )*}
}
sym_binop!(
    Add add AddAssign add_assign "+",
    Sub sub SubAssign sub_assign "-",
    Mul mul MulAssign mul_assign "*",
    Div div DivAssign div_assign "/",
    Rem rem RemAssign rem_assign "%",
    Shl shl ShlAssign shl_assign "<<",
    Shr shr ShrAssign shr_assign ">>",
    BitAnd bitand BitAndAssign bitand_assign "&",
    BitOr bitor BitOrAssign bitor_assign "|",
    BitXor bitxor BitXorAssign bitxor_assign "^"
);
impl Neg for Sym {
    type Output = Sym;
    fn neg(self) -> Sym {
        Sym::op1("neg", self)
    }
}
impl<'a> Neg for &'a Sym {
    type Output = Sym;
    fn neg(self) -> Sym {
        Sym::op1("neg", *self)
    }
}
impl Not for Sym {
    type Output = Sym;
    fn not(self) -> Sym {
        Sym::op1("not", self)
    }
}
impl<'a> Not for &'a Sym {
    type Output = Sym;
    fn not(self) -> Sym {
        Sym::op1("not", *self)
    }
}
impl num_traits::ops::mul_add::MulAdd for Sym {
    type Output = Sym;
    fn mul_add(self, a: Sym, b: Sym) -> Sym {
        Sym::op3("fma", self, a, b)
    }
}
impl Zero for Sym {
    fn zero() -> Sym {
        Sym::named("0")
    }
    fn is_zero(&self) -> bool {
        *self == Sym::named("0")
    }
}
impl One for Sym {
    fn one() -> Sym {
        Sym::named("1")
    }
}
impl From<u8> for Sym {
    fn from(x: u8) -> Sym {
        Sym::named(&format!("{}u8", x))
    }
}

/// Element of the free monoid over bytes (non-`Copy`). `+` and `*` are both concatenation, so the
/// *order* in which a fold visits elements is visible while its association is not.
#[derive(Clone, PartialEq, Eq, Hash, Default, PartialOrd, Ord)]
pub struct Seq(pub Vec<u8>);

impl Seq {
    pub fn atom(k: u8) -> Seq {
        Seq(vec![k])
    }
}
impl fmt::Debug for Seq {
    fn fmt(&self, f: &mut fmt::Formatter) -> fmt::Result {
        write!(f, "<")?;
        for (i, b) in self.0.iter().enumerate() {
            if i > 0 {
                write!(f, " ")?;
            }
            write!(f, "{}", b)?;
        }
        write!(f, ">")
    }
}
impl Add for Seq {
    type Output = Seq;
    fn add(mut self, o: Seq) -> Seq {
        self.0.extend_from_slice(&o.0);
        self
    }
}
impl Mul for Seq {
    type Output = Seq;
    fn mul(mut self, o: Seq) -> Seq {
        self.0.extend_from_slice(&o.0);
        self
    }
}
impl Zero for Seq {
    fn zero() -> Seq {
        Seq(vec![])
    }
    fn is_zero(&self) -> bool {
        self.0.is_empty()
    }
}
impl One for Seq {
    fn one() -> Seq {
        Seq(vec![])
    }
}
