//! Byte tape: the only source of randomness of a generated case.
//!
//! Decoders are monotone: a zero byte decodes to the simplest value (0, first alternative,
//! shortest sequence), and shrinking a byte shrinks the decoded value. Reading past the end
//! yields zeros.

pub struct Tape<'a> {
    data: &'a [u8],
    pos: usize,
}

impl<'a> Tape<'a> {
    pub fn new(data: &'a [u8]) -> Self {
        Tape { data, pos: 0 }
    }
    /// Number of bytes consumed so far (clamped to the tape length).
    pub fn consumed(&self) -> usize {
        self.pos.min(self.data.len())
    }
    pub fn consumed_bytes(&self) -> &[u8] {
        &self.data[..self.consumed()]
    }
    pub fn exhausted(&self) -> bool {
        self.pos >= self.data.len()
    }
    pub fn u8(&mut self) -> u8 {
        let b = self.data.get(self.pos).copied().unwrap_or(0);
        self.pos += 1;
        b
    }
    pub fn u16(&mut self) -> u16 {
        let lo = self.u8() as u16;
        let hi = self.u8() as u16;
        hi << 8 | lo
    }
    pub fn u32(&mut self) -> u32 {
        let lo = self.u16() as u32;
        let hi = self.u16() as u32;
        hi << 16 | lo
    }
    pub fn u64(&mut self) -> u64 {
        let lo = self.u32() as u64;
        let hi = self.u32() as u64;
        hi << 32 | lo
    }
    pub fn bool(&mut self) -> bool {
        self.u8() & 1 == 1
    }
    /// true with probability about num/256.
    pub fn chance(&mut self, num: u32) -> bool {
        (self.u8() as u32) >= 256 - num.min(256)
    }
    /// Index in 0..n (n <= 256), monotone in the byte.
    pub fn below(&mut self, n: usize) -> usize {
        debug_assert!(n >= 1 && n <= 256);
        (self.u8() as usize * n) >> 8
    }
    /// Index in 0..n for larger n (n <= 65536), monotone.
    pub fn below16(&mut self, n: usize) -> usize {
        debug_assert!(n >= 1 && n <= 65536);
        (self.u16() as usize * n) >> 16
    }
    pub fn pick<T: Copy>(&mut self, xs: &[T]) -> T {
        xs[self.below(xs.len())]
    }
    /// Integer in lo..=hi (span <= 65536); byte 0 gives the value closest to zero.
    pub fn int(&mut self, lo: i64, hi: i64) -> i64 {
        debug_assert!(lo <= hi);
        let span = (hi - lo + 1) as usize;
        let k = if span <= 256 { self.below(span) } else { self.below16(span.min(65536)) } as i64;
        // order the range by distance from the value closest to zero: 0, 1, -1, 2, -2, ...
        let origin = if lo > 0 { lo } else if hi < 0 { hi } else { 0 };
        let up = hi - origin;
        let down = origin - lo;
        // interleave
        let m = up.min(down);
        if k <= 2 * m {
            if k == 0 { origin } else if k % 2 == 1 { origin + (k + 1) / 2 } else { origin - k / 2 }
        } else {
            let rest = k - 2 * m;
            if up > down { origin + m + rest } else { origin - m - rest }
        }
    }
    /// Small signed integer, biased towards small magnitudes: mostly in -8..=8, sometimes up to +-max.
    pub fn small_int(&mut self, max: i64) -> i64 {
        let b = self.u8();
        let neg = b & 1 == 1;
        let m = (b >> 1) as i64; // 0..127
        let v = if max <= 12 {
            (m * (max + 1)) / 128
        } else if m < 96 {
            (m * 9) / 96
        } else {
            9 + ((m - 96) * (max - 8)) / 32
        };
        let v = v.min(max);
        if neg { -v } else { v }
    }
    /// Full-range i64 built from the stratified set {limits, small, powers of two +-1, random}.
    pub fn strat_i64(&mut self, min: i64, max: i64) -> i64 {
        let sel = self.below(8);
        let v: i128 = match sel {
            0 => self.int(-2, 2) as i128,
            1 => min as i128 + self.below(3) as i128,
            2 => max as i128 - self.below(3) as i128,
            3 => {
                let bits = self.below(64) as u32;
                let p = 1i128 << bits;
                let d = self.int(-1, 1) as i128;
                if self.bool() { -(p + d) } else { p + d }
            }
            4 => self.int(-128, 127) as i128,
            _ => self.u64() as i64 as i128,
        };
        let v = if v < min as i128 || v > max as i128 {
            // fold into range
            let span = max as i128 - min as i128 + 1;
            min as i128 + (v - min as i128).rem_euclid(span)
        } else { v };
        v as i64
    }
    /// f64 uniformly in [0,1) with 32 bits of resolution.
    pub fn unit_f64(&mut self) -> f64 {
        self.u32() as f64 / 4294967296.0
    }
    /// f64 in [lo, hi)
    pub fn range_f64(&mut self, lo: f64, hi: f64) -> f64 {
        lo + (hi - lo) * self.unit_f64()
    }
}

/// splitmix64, used for seed derivation and for hashing.
pub fn mix64(mut z: u64) -> u64 {
    z = z.wrapping_add(0x9E3779B97F4A7C15);
    z = (z ^ (z >> 30)).wrapping_mul(0xBF58476D1CE4E5B9);
    z = (z ^ (z >> 27)).wrapping_mul(0x94D049BB133111EB);
    z ^ (z >> 31)
}

pub fn hash_bytes(seed: u64, bytes: &[u8]) -> u64 {
    let mut h = mix64(seed ^ 0x51_7c_c1_b7_27_22_0a_95);
    for chunk in bytes.chunks(8) {
        let mut w = [0u8; 8];
        w[..chunk.len()].copy_from_slice(chunk);
        h = mix64(h ^ u64::from_le_bytes(w)).wrapping_add(chunk.len() as u64);
    }
    h
}

pub fn hash_str(s: &str) -> u64 {
    hash_bytes(0, s.as_bytes())
}

#[cfg(test)]
mod tests {
    use super::*;
    #[test]
    fn int_monotone_and_in_range() {
        for (lo, hi) in [(-5i64, 5i64), (0, 10), (-10, 0), (3, 9), (-9, -3), (-2, 100), (-100, 2), (-300, 300)] {
            let mut seen = std::collections::BTreeSet::new();
            for b in 0..=65535u32 {
                let bytes = [(b & 255) as u8, (b >> 8) as u8];
                let mut t = Tape::new(&bytes);
                let v = t.int(lo, hi);
                assert!(v >= lo && v <= hi, "{v} not in {lo}..={hi}");
                seen.insert(v);
            }
            assert_eq!(seen.len() as i64, hi - lo + 1, "{lo} {hi}");
            let z = [0u8, 0];
            let mut t = Tape::new(&z);
            let v0 = t.int(lo, hi);
            assert!(v0.abs() == lo.abs().min(hi.abs()) || (lo <= 0 && hi >= 0 && v0 == 0));
        }
    }
}
