//! vek-facing helpers: build and read vek matrices / vectors through their public *fields*
//! (row-major: `rows.x` is row 0; column-major: `cols.x` is column 0), the one representation
//! fact everything else is measured against.

use std::fmt::Debug;
use vek::mat::repr_c::column_major as cm;
use vek::mat::repr_c::row_major as rm;
use vek::vec::repr_c::{Vec2, Vec3, Vec4};

pub trait MatN<S: Copy, const N: usize>: Copy + Debug {
    const COL_MAJOR: bool;
    fn from_arr(a: &[[S; N]; N]) -> Self;
    fn to_arr(&self) -> [[S; N]; N];
}

pub fn v2<S: Copy>(a: &[S; 2]) -> Vec2<S> {
    Vec2 { x: a[0], y: a[1] }
}
pub fn v3<S: Copy>(a: &[S; 3]) -> Vec3<S> {
    Vec3 { x: a[0], y: a[1], z: a[2] }
}
pub fn v4<S: Copy>(a: &[S; 4]) -> Vec4<S> {
    Vec4 { x: a[0], y: a[1], z: a[2], w: a[3] }
}
pub fn a2<S: Copy>(v: &Vec2<S>) -> [S; 2] {
    [v.x, v.y]
}
pub fn a3<S: Copy>(v: &Vec3<S>) -> [S; 3] {
    [v.x, v.y, v.z]
}
pub fn a4<S: Copy>(v: &Vec4<S>) -> [S; 4] {
    [v.x, v.y, v.z, v.w]
}

impl<S: Copy + Debug> MatN<S, 2> for rm::Mat2<S> {
    const COL_MAJOR: bool = false;
    fn from_arr(a: &[[S; 2]; 2]) -> Self {
        rm::Mat2 { rows: Vec2 { x: v2(&a[0]), y: v2(&a[1]) } }
    }
    fn to_arr(&self) -> [[S; 2]; 2] {
        [a2(&self.rows.x), a2(&self.rows.y)]
    }
}
impl<S: Copy + Debug> MatN<S, 3> for rm::Mat3<S> {
    const COL_MAJOR: bool = false;
    fn from_arr(a: &[[S; 3]; 3]) -> Self {
        rm::Mat3 { rows: Vec3 { x: v3(&a[0]), y: v3(&a[1]), z: v3(&a[2]) } }
    }
    fn to_arr(&self) -> [[S; 3]; 3] {
        [a3(&self.rows.x), a3(&self.rows.y), a3(&self.rows.z)]
    }
}
impl<S: Copy + Debug> MatN<S, 4> for rm::Mat4<S> {
    const COL_MAJOR: bool = false;
    fn from_arr(a: &[[S; 4]; 4]) -> Self {
        rm::Mat4 { rows: Vec4 { x: v4(&a[0]), y: v4(&a[1]), z: v4(&a[2]), w: v4(&a[3]) } }
    }
    fn to_arr(&self) -> [[S; 4]; 4] {
        [a4(&self.rows.x), a4(&self.rows.y), a4(&self.rows.z), a4(&self.rows.w)]
    }
}
fn tr<S: Copy, const N: usize>(a: &[[S; N]; N]) -> [[S; N]; N] {
    let mut r = *a;
    for i in 0..N {
        for j in 0..N {
            r[i][j] = a[j][i];
        }
    }
    r
}
impl<S: Copy + Debug> MatN<S, 2> for cm::Mat2<S> {
    const COL_MAJOR: bool = true;
    fn from_arr(a: &[[S; 2]; 2]) -> Self {
        let t = tr(a);
        cm::Mat2 { cols: Vec2 { x: v2(&t[0]), y: v2(&t[1]) } }
    }
    fn to_arr(&self) -> [[S; 2]; 2] {
        tr(&[a2(&self.cols.x), a2(&self.cols.y)])
    }
}
impl<S: Copy + Debug> MatN<S, 3> for cm::Mat3<S> {
    const COL_MAJOR: bool = true;
    fn from_arr(a: &[[S; 3]; 3]) -> Self {
        let t = tr(a);
        cm::Mat3 { cols: Vec3 { x: v3(&t[0]), y: v3(&t[1]), z: v3(&t[2]) } }
    }
    fn to_arr(&self) -> [[S; 3]; 3] {
        tr(&[a3(&self.cols.x), a3(&self.cols.y), a3(&self.cols.z)])
    }
}
impl<S: Copy + Debug> MatN<S, 4> for cm::Mat4<S> {
    const COL_MAJOR: bool = true;
    fn from_arr(a: &[[S; 4]; 4]) -> Self {
        let t = tr(a);
        cm::Mat4 { cols: Vec4 { x: v4(&t[0]), y: v4(&t[1]), z: v4(&t[2]), w: v4(&t[3]) } }
    }
    fn to_arr(&self) -> [[S; 4]; 4] {
        tr(&[a4(&self.cols.x), a4(&self.cols.y), a4(&self.cols.z), a4(&self.cols.w)])
    }
}

/// Compare two matrices given as arrays with the domain's closeness.
pub fn mats_close<S: crate::Dom, const N: usize>(cx: &mut crate::Cx, got: &[[S; N]; N], want: &[[S; N]; N], scale: f64, k: f64) -> Result<(), String> {
    for i in 0..N {
        for j in 0..N {
            if !crate::dom::close::<S>(cx, got[i][j], want[i][j], scale, k) {
                return Err(format!("element ({},{}) differs: got {:?}, want {:?}\n got  {:?}\n want {:?}", i, j, got[i][j], want[i][j], got, want));
            }
        }
    }
    Ok(())
}
pub fn vecs_close<S: crate::Dom, const N: usize>(cx: &mut crate::Cx, got: &[S; N], want: &[S; N], scale: f64, k: f64) -> Result<(), String> {
    for i in 0..N {
        if !crate::dom::close::<S>(cx, got[i], want[i], scale, k) {
            return Err(format!("element {} differs: got {:?}, want {:?} (got {:?}, want {:?})", i, got[i], want[i], got, want));
        }
    }
    Ok(())
}

#[macro_export]
macro_rules! check_mat {
    ($cx:expr, $S:ty, $got:expr, $want:expr, $scale:expr, $k:expr, $($arg:tt)*) => {{
        if let Err(e) = $crate::vk::mats_close::<$S, _>($cx, &$got, &$want, $scale as f64, $k as f64) {
            return Err($crate::driver::Fail::Violation(format!("{}: {}", format!($($arg)*), e)));
        }
    }};
}
#[macro_export]
macro_rules! check_vec {
    ($cx:expr, $S:ty, $got:expr, $want:expr, $scale:expr, $k:expr, $($arg:tt)*) => {{
        if let Err(e) = $crate::vk::vecs_close::<$S, _>($cx, &$got, &$want, $scale as f64, $k as f64) {
            return Err($crate::driver::Fail::Violation(format!("{}: {}", format!($($arg)*), e)));
        }
    }};
}

/// Largest magnitude in a matrix, as f64 (for tolerance scales).
pub fn mat_max<S: crate::Dom, const N: usize>(a: &[[S; N]; N]) -> f64 {
    let mut m = 0.0f64;
    for r in a {
        for x in r {
            m = m.max(x.f().abs());
        }
    }
    m
}
pub fn vec_max<S: crate::Dom, const N: usize>(a: &[S; N]) -> f64 {
    a.iter().fold(0.0f64, |m, x| m.max(x.f().abs()))
}

pub fn gen_mat<S: crate::Dom, const N: usize>(t: &mut crate::Tape, max: i64) -> [[S; N]; N] {
    let mut m = [[S::zero(); N]; N];
    for i in 0..N {
        for j in 0..N {
            m[i][j] = S::any(t, max);
        }
    }
    m
}
pub fn gen_vec<S: crate::Dom, const N: usize>(t: &mut crate::Tape, max: i64) -> [S; N] {
    let mut v = [S::zero(); N];
    for i in 0..N {
        v[i] = S::any(t, max);
    }
    v
}
