#!/usr/bin/env python3
"""C20, configuration half: generated feature configurations of vek, each decided by an executable oracle.

  feature-build-core   every base {std, libm} x {no optional feature, each single feature, the full set}
                       plus the tuple-struct-vector x interop cross pairs (macro bodies expand differently
                       for tuple-indexed vector kinds): `cargo check` on the stable toolchain must succeed.
  feature-build-pairs  every base x every unordered pair of features (quick: a seeded sample; thorough: all).
  feature-digest       differential / metamorphic: a fixed seeded battery of calls into the API that exists in
                       every configuration (harness/featdigest/src/main.rs) is built and run under the
                       configuration; every section hash must equal the one obtained with the bare base
                       feature alone -- enabling a feature only adds items.

A run is a pure function of (vek sources, tier, VERIF_SEED). Scratch (per-worker cargo target directories,
generated digest crates) lives under <root>/work/featmat and is removed at the end.

usage: featmat.py --tier quick|thorough [--seed N] [--evidence PATH] [--replay FILE] [--only SUBSTR] [--jobs N]
exit: 0 held, 1 VIOLATION printed, 2 inconclusive (cargo itself unusable, base digest does not build, ...)
"""
import argparse, concurrent.futures, hashlib, itertools, json, os, queue, random, re, shutil, subprocess, sys, time

FEATS = ["vec8", "vec16", "vec32", "vec64", "rgb", "rgba", "uv", "uvw", "serde", "mint", "bytemuck", "az", "image", "repr_simd"]
BASES = ["std", "libm"]
TUPLE_VECS = ["vec8", "vec16", "vec32", "vec64"]
INTEROP = ["serde", "mint", "bytemuck", "az", "image"]

HERE = os.path.dirname(os.path.abspath(__file__))
ROOT = os.environ.get("VERIF_ROOT") or os.path.dirname(HERE)
HARNESS = os.path.join(os.path.dirname(HERE), "harness")


def repo_path():
    txt = open(os.path.join(HARNESS, "Cargo.toml")).read()
    m = re.search(r'vek\s*=\s*\{\s*path\s*=\s*"([^"]+)"', txt)
    return m.group(1) if m else "/repo"


REPO = repo_path()
WORK = os.path.join(ROOT, "work", "featmat")


def cfg_name(c):
    return "+".join([c[0]] + list(c[1]))


def core_configs():
    out = []
    for b in BASES:
        out.append((b, ()))
        for f in FEATS:
            out.append((b, (f,)))
        out.append((b, tuple(FEATS)))
    for b in BASES:
        for v in TUPLE_VECS:
            for i in INTEROP:
                out.append((b, (v, i)))
    return out


def pair_configs():
    return [(b, p) for b in BASES for p in itertools.combinations(FEATS, 2)]


def all_configs():
    out = []
    for b in BASES:
        out.append((b, ()))
        out += [(b, (f,)) for f in FEATS]
        out += [(b, p) for p in itertools.combinations(FEATS, 2)]
        out.append((b, tuple(FEATS)))
    return out


def cargo_env(slot):
    env = dict(os.environ)
    for k in ("RUSTFLAGS", "CARGO_ENCODED_RUSTFLAGS", "CARGO_BUILD_RUSTFLAGS", "RUSTC_WRAPPER", "CARGO_BUILD_TARGET"):
        env.pop(k, None)
    env.update(CARGO_NET_OFFLINE="true", RUSTUP_TOOLCHAIN="stable", CARGO_TARGET_DIR=os.path.join(WORK, "slot%d" % slot, "target"), CARGO_TERM_COLOR="never", CARGO_INCREMENTAL="0")
    return env


def errors_of(stderr, limit=6):
    lines = stderr.splitlines()
    out = []
    for i, l in enumerate(lines):
        if l.startswith("error") and not l.startswith("error: could not compile"):
            out.append(" | ".join(x.strip() for x in lines[i:i + 3]))
        if len(out) >= limit:
            break
    return out


def classify_failure(stderr, crate):
    """compile error in `crate` -> 'compile'; anything else (resolution, missing toolchain, io) -> 'infra'"""
    if ("could not compile `%s`" % crate) in stderr:
        return "compile"
    return "infra"


def build_config(cfg, slot):
    """oracle: the configuration compiles on the stable toolchain"""
    base, feats = cfg
    t0 = time.time()
    cmd = ["cargo", "check", "--offline", "--lib", "--manifest-path", os.path.join(REPO, "Cargo.toml"), "--no-default-features", "--features", " ".join((base,) + tuple(feats))]
    p = subprocess.run(cmd, env=cargo_env(slot), capture_output=True, text=True)
    dt = time.time() - t0
    if p.returncode == 0:
        return ("pass", "", dt)
    kind = classify_failure(p.stderr, "vek")
    msg = "; ".join(errors_of(p.stderr)) or p.stderr[-400:]
    if kind == "compile":
        return ("fail", "`cargo check --no-default-features --features \"%s\"` fails on stable: %s" % (" ".join((base,) + tuple(feats)), msg), dt)
    return ("infra", msg, dt)


def digest_run(cfg, slot, seed):
    """build and run the digest battery under cfg; returns (status, lines-or-message, seconds)"""
    base, feats = cfg
    t0 = time.time()
    d = os.path.join(WORK, "slot%d" % slot, "digest")
    shutil.rmtree(d, ignore_errors=True)
    os.makedirs(os.path.join(d, "src"))
    shutil.copy(os.path.join(HARNESS, "featdigest", "src", "main.rs"), os.path.join(d, "src", "main.rs"))
    fl = ", ".join('"%s"' % f for f in (base,) + tuple(feats))
    open(os.path.join(d, "Cargo.toml"), "w").write(
        '[package]\nname = "vekdigest"\nversion = "0.0.0"\nedition = "2021"\n\n[dependencies]\nvek = { path = "%s", default-features = false, features = [%s] }\n\n[workspace]\n' % (REPO, fl))
    lock = os.path.join(REPO, "Cargo.lock")
    if os.path.exists(lock):
        shutil.copy(lock, os.path.join(d, "Cargo.lock"))
    env = cargo_env(slot)
    p = subprocess.run(["cargo", "build", "--offline", "--manifest-path", os.path.join(d, "Cargo.toml")], env=env, capture_output=True, text=True)
    if p.returncode != 0:
        msg = "; ".join(errors_of(p.stderr)) or p.stderr[-400:]
        if "could not compile `vek`" in p.stderr:
            return ("fail", "vek does not build with features \"%s\": %s" % (" ".join((base,) + tuple(feats)), msg), time.time() - t0)
        if "could not compile `vekdigest`" in p.stderr:
            return ("digest-compile", msg, time.time() - t0)
        return ("infra", msg, time.time() - t0)
    exe = os.path.join(env["CARGO_TARGET_DIR"], "debug", "vekdigest")
    r = subprocess.run([exe, str(seed)], capture_output=True, text=True, env=dict(os.environ, RUST_BACKTRACE="0"))
    if r.returncode != 0:
        return ("run-fail", "digest battery exits with %d: %s" % (r.returncode, r.stderr.strip().splitlines()[:2]), time.time() - t0)
    lines = [l for l in r.stdout.splitlines() if l.startswith("section ")]
    return ("ok", lines, time.time() - t0)


class Runner:
    def __init__(self, jobs):
        self.jobs = jobs
        self.slots = queue.Queue()
        for i in range(jobs):
            self.slots.put(i)
        self.refs = {}

    def with_slot(self, f, *a):
        s = self.slots.get()
        try:
            return f(*a, s)
        finally:
            self.slots.put(s)

    def map(self, f, items):
        with concurrent.futures.ThreadPoolExecutor(self.jobs) as ex:
            return list(ex.map(lambda it: self.with_slot(f, it), items))


def num_traits_std(cfg, slot):
    """Does cargo's feature unification switch num-traits to its `std` float functions in this configuration?
    (`image` depends on num-traits with default features; then `Real::sin` & co. are std's even under vek's
    `libm` base. That is cargo/num-traits behaviour, not vek's, so such a configuration is compared with the
    `std` reference.)"""
    base, feats = cfg
    p = subprocess.run(["cargo", "tree", "--offline", "--manifest-path", os.path.join(REPO, "Cargo.toml"), "--no-default-features", "--features", " ".join((base,) + tuple(feats)), "-e", "normal", "-f", "{p} {f}", "--prefix", "none"], env=cargo_env(slot), capture_output=True, text=True)
    for l in p.stdout.splitlines():
        if l.startswith("num-traits v"):
            fs = l.split(" ")[2].split(",") if len(l.split(" ")) > 2 else []
            if "std" in fs:
                return True
    return False


def digest_case(cfg, seed, refs, slot):
    st, val, dt = digest_run(cfg, slot, seed)
    base = cfg[0]
    if st == "ok" and base == "libm" and val != refs[base] and "std" in refs and num_traits_std(cfg, slot):
        base = "std"
    if st == "ok":
        ref = refs[base]
        if val == ref:
            return ("pass", "", dt)
        diff = [(a, b) for a, b in itertools.zip_longest(ref, val) if a != b]
        a, b = diff[0]
        return ("fail", "behaviour of the always-present API changes when features \"%s\" are added to \"%s\": %d section(s) differ, first: base-only `%s` vs `%s`" % (" ".join(cfg[1]), base, len(diff), a, b), dt)
    if st == "digest-compile":
        return ("fail", "a program using only always-present API compiles with \"%s\" alone but not with \"%s\" added: %s" % (base, " ".join(cfg[1]), val), dt)
    if st == "run-fail":
        return ("fail", "with features \"%s\" added to \"%s\": %s" % (" ".join(cfg[1]), base, val), dt)
    return (st, val, dt)


def main():
    ap = argparse.ArgumentParser()
    ap.add_argument("--tier", default=os.environ.get("VERIF_TIER", "quick"))
    ap.add_argument("--seed", type=int, default=int(os.environ.get("VERIF_SEED", "1") or 1))
    ap.add_argument("--evidence")
    ap.add_argument("--replay")
    ap.add_argument("--only")
    ap.add_argument("--jobs", type=int, default=16)
    a = ap.parse_args()
    thorough = a.tier == "thorough"
    t0 = time.time()
    shutil.rmtree(WORK, ignore_errors=True)
    os.makedirs(WORK, exist_ok=True)
    run = Runner(a.jobs)
    rng = random.Random(a.seed * 1000003 + 20)
    try:
        rc = body(a, thorough, run, rng, t0)
    finally:
        shutil.rmtree(WORK, ignore_errors=True)
    sys.exit(rc)


def refs_for(run, seed, bases):
    out = {}
    res = run.map(lambda b, slot: digest_run((b, ()), slot, seed), bases)
    for b, (st, val, dt) in zip(bases, res):
        if st != "ok":
            return None, "reference digest for base `%s` unavailable (%s): %s" % (b, st, val)
        out[b] = val
    return out, ""


def body(a, thorough, run, rng, t0):
    if a.replay:
        v = json.load(open(a.replay))
        cfg = (v["config"]["base"], tuple(v["config"]["features"]))
        if v["check"] == "feature-digest":
            refs, why = refs_for(run, v.get("seed", a.seed), BASES)
            if refs is None:
                print("[C20] " + why, file=sys.stderr)
                return 2
            st, msg, dt = run.with_slot(lambda s: digest_case(cfg, v.get("seed", a.seed), refs, s))
        else:
            st, msg, dt = run.with_slot(lambda s: build_config(cfg, s))
        print("[C20] %s %s: %s %s" % (v["check"], cfg_name(cfg), st, msg), file=sys.stderr)
        if st == "fail":
            print("VIOLATION property=C20 replay=%s" % a.replay)
            return 1
        return 0 if st == "pass" else 2

    core = core_configs()
    pairs = pair_configs()
    allc = all_configs()
    n_pairs = len(pairs) if thorough else 28
    pair_sel = pairs if thorough else sorted(rng.sample(pairs, n_pairs), key=lambda c: pairs.index(c))
    if thorough:
        dig_sel = [c for c in allc if c[1]]
    else:
        cand = [c for c in allc if c[1]]
        dig_sel = [("std", tuple(FEATS))] + rng.sample([c for c in cand if len(c[1]) == 1], 3) + rng.sample([c for c in cand if len(c[1]) == 2], 3) + [("libm", tuple(FEATS))]
    plan = [
        ("feature-build-core", "every base {std, libm} x {no optional feature, each of the 14 single features, the full set} and the {vec8,vec16,vec32,vec64} x {serde,mint,bytemuck,az,image} cross pairs: `cargo check --no-default-features --features ...` on the stable toolchain succeeds", core, len(core), "build"),
        ("feature-build-pairs", "every base x every unordered pair of the 14 features (quick: seeded sample of 28 of the 182; thorough: all): `cargo check` on stable succeeds", pair_sel, len(pairs), "build"),
        ("feature-digest", "differential: the seeded battery of ~50 000 results from the always-present API (vectors, matrices, quaternions, transforms, Bezier curves, geometry, scalar ops, numeric lifts, type layouts) built and run under the configuration gives section hashes identical to the bare base feature alone (quick: both full sets + 3 singles + 3 pairs, seeded; thorough: all 212 non-empty configurations)", dig_sel, len(allc) - 2, "digest"),
    ]
    per_check, samples, failures, infra = [], [], [], []
    evaluations = nontrivial = 0
    distinct = set()
    refs = None
    for name, about, sel, total, kind in plan:
        if a.only and a.only not in name:
            continue
        tc = time.time()
        if kind == "build":
            res = run.map(lambda c, slot: build_config(c, slot), sel)
        else:
            refs, why = refs_for(run, a.seed, BASES)
            if refs is None:
                infra.append(why)
                # a base that fails to build is a build violation already reported by feature-build-core
                continue
            res = run.map(lambda c, slot: digest_case(c, a.seed, refs, slot), sel)
        passed = 0
        nt = 0
        for c, (st, msg, dt) in zip(sel, res):
            evaluations += 1
            if st == "pass":
                passed += 1
                if c[1]:
                    nt += 1
                    distinct.add((kind, c))
            elif st == "fail":
                failures.append((name, c, msg))
            else:
                infra.append("%s %s: %s" % (name, cfg_name(c), msg))
        nontrivial += nt
        for c, (st, msg, dt) in list(zip(sel, res))[:2] + list(zip(sel, res))[-1:]:
            samples.append({"check": name, "case": "%s -> %s in %.1fs" % (cfg_name(c), st, dt)})
        per_check.append({"check": name, "about": about, "kind": "configuration-enumeration(exhaustive)" if len(sel) >= total else "configuration-enumeration(seeded sample)", "planned": len(sel), "cases": len(sel), "passed": passed, "nontrivial": nt, "distinct_nontrivial": nt, "space": total, "exhaustive": len(sel) >= total, "wall_s": round(time.time() - tc, 2),
                          "configurations": [cfg_name(c) for c in sel] if len(sel) <= 64 else [cfg_name(c) for c in sel[:64]] + ["... %d more" % (len(sel) - 64)],
                          "digest_reference": refs if kind == "digest" else None})
    replays = []
    lines = []
    seen = set()
    for name, c, msg in failures:
        print("[C20] %s failed: %s: %s" % (name, cfg_name(c), msg), file=sys.stderr)
        if name in seen:
            continue  # one replay per check, like the tape checks
        seen.add(name)
        d = os.path.join(ROOT, "replays", "C20")
        os.makedirs(d, exist_ok=True)
        h = hashlib.sha1(cfg_name(c).encode()).hexdigest()[:8]
        path = os.path.join(d, "%s-%s.json" % (name, h))
        json.dump({"property": "C20", "check": name, "config": {"base": c[0], "features": list(c[1])}, "message": msg, "decoded": cfg_name(c), "seed": a.seed}, open(path, "w"), indent=1)
        replays.append(path)
        lines.append("VIOLATION property=C20 replay=%s" % path)
    rc = 1 if failures else (2 if infra else 0)
    for w in infra:
        print("[C20] inconclusive: %s" % w, file=sys.stderr)
    ev = {
        "property_id": "C20", "tier": a.tier, "seed": a.seed, "level": "exploration",
        "coverage": {"evaluations": evaluations, "distinct_nontrivial": len(distinct),
                     "rule": "configurations are enumerated from {std, libm} x subsets of the 14 optional features (sizes 0, 1, 2, 14); a configuration is non-trivial when it enables at least one optional feature and its oracle (compiles on stable / digest equal to the base-only digest) was actually evaluated; distinct = distinct (oracle, configuration)",
                     "samples": samples or ["no sample recorded"], "exhaustive": all(p["exhaustive"] for p in per_check) and bool(per_check), "nontrivial": nontrivial, "comparisons": evaluations, "discards": {}, "known_finding_hits": {}, "per_check": per_check, "replays": replays},
        "assumptions": ["`cargo check` success is taken as 'builds' for the configuration sweep (post-monomorphisation errors would only show in the digest builds, which link)", "the default rustup toolchain `stable` is the stable toolchain of the property", "platform_intrinsics and the nightly-only repr_simd types are outside the property; on stable `repr_simd` must be inert", "a `libm` configuration in which cargo's feature unification enables num-traits/std (through `image`) is compared with the `std` reference digest: which libm/std float routines num-traits calls is not vek behaviour"],
        "wall_s": round(time.time() - t0, 2), "violations": len(failures), "inconclusive": infra,
    }
    if a.evidence and not a.only:
        os.makedirs(os.path.dirname(a.evidence), exist_ok=True)
        json.dump(ev, open(a.evidence, "w"), indent=1)
    for l in lines:
        print(l)
    print("[C20/featmat] tier=%s seed=%d configurations=%d nontrivial(distinct)=%d violations=%d inconclusive=%d wall=%.1fs" % (a.tier, a.seed, evaluations, len(distinct), len(failures), len(infra), time.time() - t0), file=sys.stderr)
    return rc


if __name__ == "__main__":
    main()
