#!/usr/bin/env python3
"""Coverage-guided campaign for one property (thorough tier): builds harness/fuzz target <cXX> with cargo-fuzz
(libFuzzer; AddressSanitizer for C18, whose subject is unsafe code, plain coverage instrumentation elsewhere),
seeds a fresh corpus with generated tapes of every tape check, runs a fixed number of executions on 16 parallel
jobs, and writes a report (runs, coverage, corpus, crash artifacts) that the property binary folds into its
evidence (`--fuzz-report`) after replaying / shrinking every artifact strictly.

The oracle is inside the target (vkit::driver::fuzz_one runs the same case function as the generated-tape
checks and aborts on a violation). libFuzzer campaigns are only approximately reproducible from -seed; the saved
artifact (converted to a replay file by the property binary) is the reproducible unit.

usage: fuzz_campaign.py cXX --seed N --out REPORT.json [--runs-per-job R] [--jobs J]
exit 0: campaign ran (with or without artifacts); 2: could not build / run (the thorough tier goes on without it)
"""
import argparse, glob, json, os, re, shutil, subprocess, sys, time

HERE = os.path.dirname(os.path.abspath(__file__))
VERIF = os.path.dirname(HERE)
ROOT = os.environ.get("VERIF_ROOT") or VERIF
HARNESS = os.path.join(VERIF, "harness")


def main():
    ap = argparse.ArgumentParser()
    ap.add_argument("crate")
    ap.add_argument("--seed", type=int, default=1)
    ap.add_argument("--out", required=True)
    ap.add_argument("--runs-per-job", type=int, default=int(os.environ.get("VERIF_FUZZ_RUNS", "1000000")))
    ap.add_argument("--jobs", type=int, default=16)
    ap.add_argument("--max-total-time", type=int, default=int(os.environ.get("VERIF_FUZZ_MAX_TIME", "900")))
    a = ap.parse_args()
    crate = a.crate.lower()
    t0 = time.time()
    san = "address" if crate == "c18" else "none"
    env = dict(os.environ, CARGO_NET_OFFLINE="true")
    env.pop("CARGO_TARGET_DIR", None)
    work = os.path.join(ROOT, "work", "fuzz-" + crate)
    shutil.rmtree(work, ignore_errors=True)
    os.makedirs(os.path.join(work, "corpus"))
    os.makedirs(os.path.join(work, "artifacts"))
    log = os.path.join(ROOT, "work", "fuzz-build-%s.log" % crate)
    b = subprocess.run(["cargo", "+nightly", "fuzz", "build", "-s", san, "--fuzz-dir", "fuzz", "--features", crate, crate], cwd=HARNESS, env=env, capture_output=True, text=True)
    open(log, "w").write(b.stdout + b.stderr)
    if b.returncode != 0:
        print("[%s] fuzz target does not build (see %s); campaign skipped" % (crate.upper(), log), file=sys.stderr)
        return 2
    exe = os.path.join(HARNESS, "fuzz", "target", "x86_64-unknown-linux-gnu", "release", crate)
    prop_bin = os.path.join(HARNESS, "target", "release", crate)
    s = subprocess.run([prop_bin, "--fuzz-seeds", os.path.join(work, "corpus"), "4", "--seed", str(a.seed)], env=dict(env, VERIF_ROOT=ROOT), capture_output=True, text=True)
    seeds = glob.glob(os.path.join(work, "corpus", "*"))
    if s.returncode != 0 or not seeds:
        print("[%s] no corpus seeds written; campaign skipped" % crate.upper(), file=sys.stderr)
        return 2
    max_len = max(os.path.getsize(f) for f in seeds)
    cmd = [exe, os.path.join(work, "corpus"), "-runs=%d" % a.runs_per_job, "-seed=%d" % (a.seed if a.seed > 0 else 1), "-max_len=%d" % max_len, "-len_control=0",
           "-jobs=%d" % a.jobs, "-workers=%d" % a.jobs, "-artifact_prefix=%s/" % os.path.join(work, "artifacts"), "-max_total_time=%d" % a.max_total_time, "-print_final_stats=1", "-rss_limit_mb=4096"]
    r = subprocess.run(cmd, cwd=work, env=dict(env, VERIF_ROOT=ROOT, RUST_BACKTRACE="0"), capture_output=True, text=True)
    runs = 0
    cov = ft = 0
    completed = 0
    asan = []
    for lf in sorted(glob.glob(os.path.join(work, "fuzz-*.log"))):
        txt = open(lf, errors="replace").read()
        m = re.findall(r"stat::number_of_executed_units:\s*(\d+)", txt)
        if m:
            runs += int(m[-1])
        else:
            m = re.findall(r"^#(\d+)\s", txt, flags=re.M)
            if m:
                runs += int(m[-1])
        for c, f in re.findall(r"cov: (\d+) ft: (\d+)", txt):
            cov, ft = max(cov, int(c)), max(ft, int(f))
        if re.search(r"^Done \d+ runs", txt, flags=re.M) or "DONE" in txt:
            completed += 1
        if "ERROR: AddressSanitizer" in txt:
            asan.append(os.path.basename(lf))
    arts = sorted(glob.glob(os.path.join(work, "artifacts", "*")))
    wall = time.time() - t0
    rep = {"engine": "libFuzzer via cargo-fuzz 0.13 (nightly)", "target": crate, "sanitizer": san, "jobs": a.jobs, "runs_per_job": a.runs_per_job, "runs": runs, "jobs_completed": completed,
           "seed": a.seed, "max_len": max_len, "len_control": 0, "corpus_seed_files": len(seeds), "corpus_files_after": len(glob.glob(os.path.join(work, "corpus", "*"))),
           "coverage_edges": cov, "coverage_features": ft, "artifacts": arts, "asan_reports": asan, "exit_status": r.returncode, "wall_s": round(wall, 1), "exec_per_s": round(runs / max(wall, 1e-9)),
           "note": "fixed-work campaign (-runs per job); -max_total_time is only a safety net. Approximately reproducible from the seed; artifacts are replayed strictly and shrunk by the property binary."}
    json.dump(rep, open(a.out, "w"), indent=1)
    print("[%s] fuzz: %d runs on %d jobs, cov %d edges / %d features, corpus %d -> %d, %d artifact(s), %.0fs" % (crate.upper(), runs, a.jobs, cov, ft, len(seeds), rep["corpus_files_after"], len(arts), wall), file=sys.stderr)
    return 0


if __name__ == "__main__":
    sys.exit(main())
