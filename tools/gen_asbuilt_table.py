#!/usr/bin/env python3
"""Splices the as-built table (per property: source files, number of checks, cases and wall time of the committed quick
evidence) into DESIGN.md between <!-- ASBUILT-BEGIN --> and <!-- ASBUILT-END -->."""
import glob, json, os
rows = ["| property | check crate files | checks | quick tier: cases (distinct non-trivial) | wall |", "|---|---|---|---|---|"]
for i in range(1, 21):
    pid = "C%02d" % i
    files = sorted(os.path.basename(f) for f in glob.glob(f"/verif/harness/c{i:02d}/src/*.rs") if not f.endswith("main.rs"))
    try:
        e = json.load(open(f"/verif/evidence/{pid}.json")); c = e["coverage"]
        cell = "%s (%s)" % (f"{c['evaluations']:,}", f"{c['distinct_nontrivial']:,}"); n = len(c.get("per_check", [])); wall = "%.0f s" % e["wall_s"]
    except Exception:
        cell, n, wall = "?", "?", "?"
    extra = " + tools/featmat.py, harness/featdigest" if pid == "C20" else ""
    rows.append(f"| {pid} | {', '.join(files)}{extra} | {n} | {cell} | {wall} |")
t = open('/verif/DESIGN.md').read()
a, b = t.index('<!-- ASBUILT-BEGIN -->') + len('<!-- ASBUILT-BEGIN -->'), t.index('<!-- ASBUILT-END -->')
open('/verif/DESIGN.md', 'w').write(t[:a] + '\n' + '\n'.join(rows) + '\n' + t[b:])
print('spliced')
