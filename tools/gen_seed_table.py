#!/usr/bin/env python3
"""Prints the markdown table of seeded changes (for DESIGN.md section 9.4) from seeded/*/meta.json."""
import glob, json, os, re, sys
rows = []
_print = print
def print(x): rows.append(x)
print("| seeded change | what was changed (independent sub-agent) | what it needs to manifest | verdict of the quick tier | check(s) that fail |")
print("|---|---|---|---|---|")
for d in sorted(glob.glob('/verif/seeded/*')):
    m = json.load(open(d + '/meta.json'))
    tail = ' '.join(m.get('quick_check_output_tail') or [])
    checks = sorted(set(re.findall(r'\[C\d\d\] ([A-Za-z0-9_\-]+) failed', tail)))
    hist = m.get('quick_check_history', '')
    v = m.get('quick_check_verdict')
    fv = m.get('first_verdict') or ''
    if (hist.startswith('MISSED') or fv.startswith('MISSED')) and v == 'CAUGHT':
        v = 'MISSED at first, CAUGHT after strengthening'
    if fv.startswith('INCONCLUSIVE') and v == 'CAUGHT':
        v = 'INCONCLUSIVE at first (the check process aborted), CAUGHT since the engine attributes crashes'
    other = ''
    if m.get('disposition') and v != 'CAUGHT':
        if m.get('caught_by_other_property'):
            o = m['caught_by_other_property']
            v = 'not by this property; CAUGHT by %s, whose statement names the changed function' % o
            other = '(%s quick tier; disposition in meta.json)' % o
        else:
            v = 'NOT CAUGHT, by design (outside what the property prescribes; disposition in meta.json)'
    cut = lambda x, n: (x[:n] + '…') if len(x) > n else x
    print("| %s | %s | %s | %s | %s |" % (os.path.basename(d), cut((m.get('summary') or '').replace('|', '\\|').replace('\n', ' '), 230), cut((m.get('needs') or '').replace('|', '\\|').replace('\n', ' '), 200), v, ', '.join(checks) or other or '(see meta.json)'))

if '--splice' in sys.argv:
    t = open('/verif/DESIGN.md').read()
    a, b = t.index('<!-- SEED-TABLE-BEGIN -->') + len('<!-- SEED-TABLE-BEGIN -->'), t.index('<!-- SEED-TABLE-END -->')
    open('/verif/DESIGN.md', 'w').write(t[:a] + '\n' + '\n'.join(rows) + '\n' + t[b:])
    _print('spliced %d rows' % (len(rows) - 2))
else:
    _print('\n'.join(rows))
