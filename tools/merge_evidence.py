#!/usr/bin/env python3
"""merge_evidence.py OUT PART1 PART2 ...: one evidence file from the parts a composite check wrote (missing parts are
noted, counts are summed, per-check lists concatenated). Every number comes from the parts, i.e. from this run."""
import json, os, sys
out, parts = sys.argv[1], sys.argv[2:]
evs, missing = [], []
for p in parts:
    try:
        evs.append(json.load(open(p)))
    except Exception as e:
        missing.append("%s (%s)" % (os.path.basename(p), type(e).__name__))
if not evs:
    sys.exit("no evidence part readable: %s" % missing)
cov = {"evaluations": 0, "distinct_nontrivial": 0, "nontrivial": 0, "comparisons": 0, "rule": "", "samples": [], "per_check": [], "replays": [], "discards": {}, "known_finding_hits": {}, "exhaustive": True}
for e in evs:
    c = e["coverage"]
    for k in ("evaluations", "distinct_nontrivial", "nontrivial", "comparisons"):
        cov[k] += int(c.get(k, 0))
    cov["rule"] += ("" if not cov["rule"] else " || ") + c.get("rule", "")
    cov["samples"] += [s for s in c.get("samples", []) if s != "no sample recorded"]
    cov["per_check"] += c.get("per_check", [])
    cov["replays"] += c.get("replays", [])
    for k in ("discards", "known_finding_hits"):
        for a, b in c.get(k, {}).items():
            cov[k][a] = cov[k].get(a, 0) + b
    cov["exhaustive"] = cov["exhaustive"] and bool(c.get("exhaustive", False))
if not cov["samples"]:
    cov["samples"] = ["no sample recorded"]
if missing:
    cov["missing_parts"] = missing
    cov["exhaustive"] = False
first = evs[0]
merged = {"property_id": first["property_id"], "tier": first["tier"], "seed": first["seed"], "level": "exploration", "coverage": cov,
          "assumptions": sum((e.get("assumptions", []) for e in evs), []), "wall_s": sum(e.get("wall_s", 0) for e in evs), "violations": sum(e.get("violations", 0) for e in evs)}
os.makedirs(os.path.dirname(out), exist_ok=True)
json.dump(merged, open(out, "w"), indent=1)
