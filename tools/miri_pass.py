#!/usr/bin/env python3
"""Miri pass: sweep a property's case functions (same generators, same oracles) under the Miri interpreter, which reports
undefined behaviour in vek's unsafe code that no element-level hook can observe (reads of uninitialised or moved-out
storage, out-of-bounds accesses that stay inside the object, invalid transmutes, misaligned references).

usage: miri_pass.py <crate> --sweep N [--shards S] [--seed X] --out report.json      (called by vcheck for c18)
       miri_pass.py <crate> --replay <replays/Cxx/miri-*.json>                        (exit 1 + VIOLATION line if Miri still objects)

The binary's `--sweep N --shard k/S` mode runs N generated inputs of every check on one thread without proptest; with
VERIF_SWEEP_TRACE it prints `sweep-case <check> t<hex tape>|i<index>` before each case, so a Miri diagnostic is tied to the
exact input, which is written as a replay file (substrate: miri). A shard that times out or cannot be built is reported as
such in the report (`incomplete` / `unavailable`) and is never a violation."""
import hashlib, json, os, re, subprocess, sys, time
from concurrent.futures import ThreadPoolExecutor
ROOT = os.environ.get('VERIF_ROOT') or os.path.dirname(os.path.dirname(os.path.abspath(__file__)))
crate = sys.argv[1]; prop = crate.upper()
def opt(name, default=None):
    return sys.argv[sys.argv.index(name) + 1] if name in sys.argv else default
env = dict(os.environ, CARGO_NET_OFFLINE='true', VERIF_ROOT=ROOT, VERIF_SWEEP_TRACE='1',
           MIRIFLAGS=os.environ.get('MIRIFLAGS', '-Zmiri-disable-isolation'))
env.pop('VERIF_INFLIGHT', None)
HARNESS = os.path.join(os.path.dirname(os.path.dirname(os.path.abspath(__file__))), 'harness')
def miri(args, timeout):
    try:
        r = subprocess.run(['cargo', '+nightly', 'miri', 'run', '-q', '-p', crate, '--'] + args, cwd=HARNESS, env=env,
                           capture_output=True, text=True, timeout=timeout)
        return r.returncode, r.stdout, r.stderr
    except subprocess.TimeoutExpired as e:
        return None, (e.stdout or b'').decode(errors='replace') if isinstance(e.stdout, bytes) else (e.stdout or ''), \
               (e.stderr or b'').decode(errors='replace') if isinstance(e.stderr, bytes) else (e.stderr or '')
def diagnostic(err):
    """first Miri error line plus the frames inside vek"""
    lines = err.splitlines()
    k = next((i for i, l in enumerate(lines) if l.startswith('error')), None)
    if k is None: return None
    frames = [l.strip() for l in lines[k:] if re.search(r'at /\S*?/src/\w+\.rs:\d+', l) and 'rustlib' not in l and '/harness/' not in l][:4]
    return (lines[k].strip() + (' | ' + ' | '.join(frames) if frames else ''))[:900]

if '--replay' in sys.argv:
    path = opt('--replay'); v = json.load(open(path))
    arg = ('t' + ''.join('%02x' % b for b in v['tape'])) if v.get('tape') is not None else 'i%d' % v['index']
    rc, out, err = miri(['--replay-raw', v['check'], arg], 3600)
    d = diagnostic(err)
    if rc is None:
        print(f'[{prop}] Miri replay timed out (inconclusive)', file=sys.stderr); sys.exit(2)
    if d and 'could not compile' not in err:
        print(f'[{prop}] Miri: {d}', file=sys.stderr); print(f'VIOLATION property={prop} replay={path}'); sys.exit(1)
    if rc == 1:
        print(f'[{prop}] the case fails under Miri (ordinary failure)', file=sys.stderr); print(f'VIOLATION property={prop} replay={path}'); sys.exit(1)
    if rc != 0:
        print(f'[{prop}] Miri replay could not run (rc {rc}): {err[-400:]}', file=sys.stderr); sys.exit(2)
    print(f'[{prop}] {v["check"]} passes under Miri on replay', file=sys.stderr); sys.exit(0)

n = int(opt('--sweep', '2')); shards = int(opt('--shards', '16')); seed = opt('--seed', '1'); out = opt('--out')
t0 = time.time()
report = {'substrate': 'cargo +nightly miri run (interpreter; -Zmiri-disable-isolation)', 'sweep_per_check': n, 'shards': shards, 'seed': seed,
          'cases': 0, 'nontrivial': 0, 'violations': [], 'incomplete_shards': [], 'unavailable': None}
# build once (also tells us whether Miri is usable here at all)
rc, o, e = miri(['--list'], 3600)
if rc != 0:
    report['unavailable'] = 'cargo miri could not build or start the check binary: ' + (e or '')[-600:]
    print(f'[{prop}] Miri pass unavailable (not counted): {report["unavailable"][-300:]}', file=sys.stderr)
else:
    def shard(k):
        return k, miri(['--sweep', str(n), '--shard', f'{k}/{shards}', '--seed', str(seed)], int(os.environ.get('VERIF_MIRI_TIMEOUT', '2400')))
    with ThreadPoolExecutor(max_workers=min(shards, os.cpu_count() or 16)) as ex:
        results = list(ex.map(shard, range(shards)))
    for k, (rc, o, e) in results:
        traces = re.findall(r'^sweep-case (\S+) ([ti][0-9a-f]+)$', e, re.M)
        m = re.search(r'sweep seed=\S+ cases=(\d+) nontrivial=(\d+)', e)
        if m:
            report['cases'] += int(m.group(1)); report['nontrivial'] += int(m.group(2))
        else:
            report['cases'] += max(0, len(traces) - 1)
        for l in o.splitlines():               # ordinary (semantic) failures found while sweeping under Miri
            mm = re.match(r'VIOLATION property=\S+ replay=(\S+)', l)
            if mm: report['violations'].append({'replay': mm.group(1), 'message': 'case fails under Miri (ordinary failure)', 'shard': k})
        d = diagnostic(e)
        if rc is None:
            report['incomplete_shards'].append({'shard': k, 'why': 'timeout'})
        elif d and traces:
            check, arg = traces[-1]
            rep = {'property': prop, 'check': check, 'substrate': 'miri', 'message': d, 'seed': seed,
                   'tape': [int(arg[1 + 2 * i:3 + 2 * i], 16) for i in range((len(arg) - 1) // 2)] if arg[0] == 't' else None,
                   'index': int(arg[1:]) if arg[0] == 'i' else None}
            d_ = os.path.join(ROOT, 'replays', prop); os.makedirs(d_, exist_ok=True)
            path = os.path.join(d_, 'miri-%s-%s.json' % (check, hashlib.sha1(arg.encode()).hexdigest()[:8]))
            json.dump(rep, open(path, 'w'), indent=1)
            report['violations'].append({'replay': path, 'message': 'Miri: ' + d, 'shard': k, 'check': check})
            report['incomplete_shards'].append({'shard': k, 'why': 'stopped at the first diagnostic'})
        elif rc not in (0, 1):
            report['incomplete_shards'].append({'shard': k, 'why': 'rc %s: %s' % (rc, (e or '')[-200:])})
report['wall_s'] = round(time.time() - t0, 1)
if out:
    json.dump(report, open(out, 'w'), indent=1)
print(f'[{prop}] Miri pass: {report["cases"]} cases, {len(report["violations"])} diagnostics, {len(report["incomplete_shards"])} incomplete shards, {report["wall_s"]} s', file=sys.stderr)
sys.exit(0)
