#!/usr/bin/env python3
"""Sensitivity helper: apply one textual mutation to /repo, run a check, revert.
usage: mut.py <Cxx> <file> <old> <new> [occurrence(0-based, default: must be unique)] [extra vcheck args...]
Prints CAUGHT / MISSED / INCONCLUSIVE. Never leaves /repo modified."""
import subprocess, sys, os
prop, path, old, new = sys.argv[1:5]
rest = sys.argv[5:]
occ = None
if rest and rest[0].lstrip('-').isdigit():
    occ = int(rest[0]); rest = rest[1:]
full = os.path.join('/repo', path)
src = open(full).read()
n = src.count(old)
if n == 0:
    print("PATTERN NOT FOUND"); sys.exit(3)
if occ is None and n != 1:
    print(f"PATTERN AMBIGUOUS ({n} occurrences)"); sys.exit(3)
idx = -1
for _ in range((occ or 0) + 1):
    idx = src.index(old, idx + 1)
mut = src[:idx] + new + src[idx + len(old):]
try:
    open(full, 'w').write(mut)
    r = subprocess.run(['/verif/vcheck', prop, '--tier', 'quick', '--evidence', '/verif/work/mut-evidence.json'] + rest, capture_output=True, text=True)
    out = (r.stdout + r.stderr).strip().splitlines()
    verdict = {0: 'MISSED', 1: 'CAUGHT'}.get(r.returncode, 'INCONCLUSIVE')
    print(f"{verdict} rc={r.returncode} :: {old!r} -> {new!r}")
    for l in out[-6:]:
        print("   ", l[:300])
finally:
    open(full, 'w').write(src)
    subprocess.run(['git', '-C', '/repo', 'diff', '--quiet']) 
