#!/usr/bin/env python3
"""Mechanical mutation sample: an unbiased complement to the independently written seeded changes.
For each property, picks K random single-token mutations (operator / comparison / constant / lane / function swaps)
on code lines inside the source ranges the property is anchored in (properties.jsonl: anchors.mechanism[].where),
applies each to a scratch copy of /repo and runs the property's quick check on it (tools/mutx.py, isolated).
usage: mutsample.py <K> <seed> [Cxx ...]    -> /verif/work/mutsample/<Cxx>.jsonl (one record per mutant), summary on stdout
A mutant that does not compile (harness build failure = INCONCLUSIVE) is recorded as such and not counted.
MISSED mutants need triage: equivalent (no observable change within the property), outside the property, or a real gap."""
import json, os, random, re, subprocess, sys
K = int(sys.argv[1]); seed = int(sys.argv[2]); want = [a.upper() for a in sys.argv[3:]]
props = [json.loads(l) for l in open('/verif/properties.jsonl')]
RULES = [  # (regex on the code part of a line, replacement) - one occurrence is mutated
    (r' \+ ', ' - '), (r' - ', ' + '), (r' \* ', ' + '), (r' / ', ' * '),
    (r' < ', ' <= '), (r' <= ', ' < '), (r' > ', ' >= '), (r' >= ', ' > '), (r' == ', ' != '), (r' != ', ' == '),
    (r' && ', ' || '), (r' \|\| ', ' && '),
    (r'T::zero\(\)', 'T::one()'), (r'T::one\(\)', 'T::zero()'),
    (r'\.x\b', '.y'), (r'\.y\b', '.x'), (r'\.z\b', '.x'), (r'\.w\b', '.z'),
    (r'\.sin\(\)', '.cos()'), (r'\.cos\(\)', '.sin()'), (r'\bmin\(', 'max('), (r'\bmax\(', 'min('),
    (r'\(-', '('), (r'= -', '= '), (r'\bstart\b', 'end'), (r'\bupper\b', 'lower'), (r'\bfrom\b', 'to'),
    (r'\(i, j\)', '(j, i)'), (r'\.rows\b', '.cols'), (r'\bnext\(\)', 'next_back()'),
]
def code_lines(path, lo, hi):
    src = open(path).read().split('\n')
    out = []
    for n in range(max(1, lo), min(len(src), hi) + 1):
        l = src[n - 1]; s = l.strip()
        if not s or s.startswith('//') or s.startswith('#[') or 'assert' in s or s.startswith('($') or s.startswith('macro_rules') or 'cfg' in s:
            continue
        code = l.split('//')[0]
        out.append((n, code))
    return out
os.makedirs('/verif/work/mutsample', exist_ok=True)
rng = random.Random(seed)
for p in props:
    pid = p['id']
    if want and pid not in want: continue
    sites = []
    for m in p['anchors'].get('mechanism', []):
        for w in re.finditer(r'(src/\S+?):(\d+)-(\d+)', m['where']):
            path = '/repo/' + w.group(1)
            if not os.path.exists(path): continue
            for n, code in code_lines(path, int(w.group(2)), int(w.group(3))):
                for ri, (rx, rep) in enumerate(RULES):
                    for mt in re.finditer(rx, code):
                        sites.append((w.group(1), n, mt.start(), mt.end(), rep, mt.group(0)))
    rng.shuffle(sites)
    done = 0; recs = []
    for (f, n, a, b, rep, old) in sites:
        if done >= K: break
        full = '/repo/' + f
        src = open(full).read().split('\n'); line = src[n - 1]
        new_line = line[:a] + rep + line[b:]
        # unique textual context for mutx: the whole line must be unique in the file, else pass the occurrence index
        text = open(full).read()
        occ = text.count(line)
        idx = 0
        if occ != 1:
            # occurrence index of this particular line
            pos = sum(len(x) + 1 for x in src[:n - 1]); idx = text[:pos].count(line)
        cmd = ['/verif/tools/mutx.py', pid, f, line, new_line] + ([str(idx)] if occ != 1 else [])
        r = subprocess.run(cmd, capture_output=True, text=True)
        out = [l for l in r.stdout.splitlines() if not l.startswith('WARNING')]
        verdict = (out[0].split(' ')[0] if out else 'NOOUTPUT')
        rec = {'property': pid, 'file': f, 'line': n, 'old': old, 'new': rep, 'before': line.strip()[:160], 'after': new_line.strip()[:160], 'verdict': verdict,
               'tail': [l.strip()[:200] for l in out[-2:]]}
        recs.append(rec)
        print(pid, f'{f}:{n}', repr(old), '->', repr(rep), verdict, flush=True)
        if verdict in ('CAUGHT', 'MISSED'):
            done += 1
    subprocess.run(['/verif/tools/mutx.py', pid, '--clean'], capture_output=True)
    with open(f'/verif/work/mutsample/{pid}.jsonl', 'a') as fh:
        for r_ in recs: fh.write(json.dumps(r_) + '\n')
