#!/usr/bin/env python3
"""Isolated sensitivity helper: applies textual mutation(s) to a *scratch copy* of /repo and runs a check
from a scratch copy of the harness, so /repo and /verif are never touched and several of these can run in parallel.

usage: mutx.py <Cxx> <file> <old> <new> [occurrence] [-- extra check args]
       mutx.py <Cxx> --patch <file.diff> [-- extra check args]
       mutx.py <Cxx> --none            (sanity: run the unmodified scratch copy)
Scratch lives in /tmp/mutx-<Cxx>/ (repo/ = copy of /repo, verif/ = copy of /verif with its own harness/target); remove it when done (mutx.py <Cxx> --clean).
Prints CAUGHT / MISSED / INCONCLUSIVE plus the tail of the check's output."""
import subprocess, sys, os, shutil
prop = sys.argv[1]
args = sys.argv[2:]
extra = []
if '--' in args:
    k = args.index('--'); extra = args[k+1:]; args = args[:k]
base = f'/tmp/mutx-{prop}'
if args and args[0] == '--clean':
    shutil.rmtree(base, ignore_errors=True); print('cleaned'); sys.exit(0)
os.makedirs(base + '/verif', exist_ok=True)
sh = lambda c: subprocess.run(c, shell=True, check=True)
# base/repo = copy of /repo, base/verif = a faithful mini /verif (vcheck, checks/, tools/, harness/, KNOWN_FINDINGS.json)
sh(f"rsync -a --delete --exclude target --exclude .git /repo/ {base}/repo/")
sh(f"rsync -a --delete --exclude .git --exclude harness/target --exclude work --exclude evidence --exclude replays --exclude seeded /verif/ {base}/verif/")
ct = open(f'{base}/verif/harness/Cargo.toml').read().replace('path = "/repo"', f'path = "{base}/repo"')
open(f'{base}/verif/harness/Cargo.toml', 'w').write(ct)
desc = 'unmodified'
if args and args[0] == '--patch':
    sh(f"cd {base}/repo && patch -p1 --quiet < {os.path.abspath(args[1])}")
    desc = 'patch ' + args[1]
elif args and args[0] == '--none':
    pass
else:
    path, old, new = args[0:3]
    occ = int(args[3]) if len(args) > 3 else None
    full = os.path.join(base, 'repo', path)
    src = open(full).read()
    n = src.count(old)
    if n == 0:
        print("PATTERN NOT FOUND"); sys.exit(3)
    if occ is None and n != 1:
        print(f"PATTERN AMBIGUOUS ({n} occurrences)"); sys.exit(3)
    idx = -1
    for _ in range((occ or 0) + 1):
        idx = src.index(old, idx + 1)
    open(full, 'w').write(src[:idx] + new + src[idx + len(old):])
    desc = f'{old!r} -> {new!r}'
env = dict(os.environ, CARGO_NET_OFFLINE='true')
env.pop('VERIF_ROOT', None); env.pop('CARGO_TARGET_DIR', None)
r = subprocess.run([f'{base}/verif/vcheck', prop, '--tier', 'quick'] + extra, cwd=base + '/verif', env=env, capture_output=True, text=True)
verdict = {0: 'MISSED', 1: 'CAUGHT'}.get(r.returncode, 'INCONCLUSIVE')
print(f"{verdict} rc={r.returncode} :: {desc}")
for l in (r.stdout + r.stderr).strip().splitlines()[-8:]:
    print("   ", l[:400])
