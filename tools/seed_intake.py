#!/usr/bin/env python3
"""Verify a seeded change produced by an independent sub-agent and file it under /verif/seeded/<Cxx>-<V>/.
usage: seed_intake.py <Cxx> <A|B> [--features "f1 f2"] [--no-check]
Confirms in the scratch worktree /tmp/seed-<Cxx>: demo passes without the patch; with the patch the crate's
674 unit tests pass and the demo fails. Then runs our quick check against the patch (isolated, via mutx.py)."""
import subprocess, sys, os, json, shutil, re
prop, var = sys.argv[1], sys.argv[2]
feats = None
if '--features' in sys.argv:
    feats = sys.argv[sys.argv.index('--features') + 1]
wt = f'/tmp/seed-{prop}'
src = f'{wt}/seed_out/{var}'
env = dict(os.environ, CARGO_TARGET_DIR=f'{wt}/target', CARGO_NET_OFFLINE='true')
def run(cmd, **kw):
    return subprocess.run(cmd, shell=True, cwd=wt, env=env, capture_output=True, text=True, **kw)
fa = f'--features "{feats}"' if feats else ''
run('git checkout -- . && rm -rf tests && mkdir tests')
shutil.copy(f'{src}/demo.rs', f'{wt}/tests/demo.rs')
r0 = run(f'cargo test --test demo --offline {fa}')
demo_clean = r0.returncode == 0
ap = run(f'git apply {src}/patch.diff')
if ap.returncode != 0:
    print('PATCH DOES NOT APPLY', ap.stderr); sys.exit(1)
r1 = run('cargo test --lib --offline')  # the pinned suite runs with default features
m = re.search(r'test result: (\w+)\. (\d+) passed; (\d+) failed', r1.stdout)
unit_ok = bool(m and m.group(1) == 'ok' and int(m.group(3)) == 0)
unit_n = int(m.group(2)) if m else -1
r2 = run(f'cargo test --test demo --offline {fa}')
demo_mut_fails = r2.returncode != 0 and ('test result: FAILED' in r2.stdout or 'could not compile' in r2.stderr)
run('git checkout -- . && rm -rf tests')
print(f'demo passes on clean tree: {demo_clean}; with patch: unit tests ok={unit_ok} ({unit_n} passed), demo fails={demo_mut_fails}')
if not (demo_clean and unit_ok and demo_mut_fails):
    print('NOT CONFIRMED'); print(r0.stdout[-800:], r1.stdout[-500:], r2.stdout[-800:]); sys.exit(1)
dst = f'/verif/seeded/{prop}-{var}'
os.makedirs(dst, exist_ok=True)
for f in ('patch.diff', 'demo.rs'):
    shutil.copy(f'{src}/{f}', f'{dst}/{f}')
try:
    meta = json.load(open(f'{src}/meta.json'))
except Exception as e:
    meta = {'property': prop, 'summary': 'meta.json unreadable: %s' % e}
meta['property'] = prop
meta['confirmed'] = {
    'worktree_commit': run('git rev-parse --short HEAD').stdout.strip(),
    'commands': [f'cargo test --test demo --offline {fa} (clean tree: pass)', f'git apply patch.diff; cargo test --lib --offline ({unit_n} passed, 0 failed)', f'cargo test --test demo --offline {fa} (with patch: FAILED)'],
}
if '--no-check' not in sys.argv:
    r = subprocess.run(['/verif/tools/mutx.py', prop, '--patch', f'{dst}/patch.diff'], capture_output=True, text=True)
    first = r.stdout.splitlines()[0] if r.stdout else 'no output'
    meta['quick_check_verdict'] = first.split(' ')[0]
    meta['first_verdict'] = meta['quick_check_verdict']
    meta['quick_check_output_tail'] = r.stdout.splitlines()[-4:]
    print(first)
    for l in r.stdout.splitlines()[-4:]: print('   ', l[:300])
json.dump(meta, open(f'{dst}/meta.json', 'w'), indent=1)
print('filed under', dst)
