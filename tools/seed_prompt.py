#!/usr/bin/env python3
"""Print the brief given to the independent sub-agent that writes seeded changes for one property.
usage: seed_prompt.py <Cxx> <V1> <V2>      (e.g. seed_prompt.py C07 M N)
The sub-agent gets: the property (from properties.jsonl), its own scratch worktree /tmp/seed-<Cxx>, one-line
descriptions of the ideas earlier reviewers already used for this property (so that it picks a different one) and
a generic description of the kinds of input a randomized suite is known to visit. It gets nothing from /verif:
no check code, no generator, no oracle, no tolerance."""
import json, glob, os, sys
prop, v1, v2 = sys.argv[1], sys.argv[2], sys.argv[3]
p = next(json.loads(l) for l in open('/verif/properties.jsonl') if json.loads(l)['id'] == prop)
earlier = []
for d in sorted(glob.glob(f'/verif/seeded/{prop}-*')):
    try:
        m = json.load(open(d + '/meta.json'))
    except Exception:
        continue
    s = ' '.join(str(m.get('summary', '')).split())
    earlier.append(f"- {s[:330]}")
anchors = p.get('anchors', {})
mech = '\n'.join(f"  - {a['name']} ({a['where']})" for a in anchors.get('mechanism', []))
print(f"""You are reviewing the robustness of a test suite for the Rust crate `vek` (generic 2D/3D math library: vectors, row/column-major matrices, quaternions, Bezier curves, geometry). Your job is to write two realistic, subtle *property-breaking changes* to the crate ("seeded defects"), which will later be used to measure whether an independent randomized test suite (which you cannot see) notices them.

## Where you work
Your own scratch git worktree of the crate: `/tmp/seed-{prop}` (already created, detached HEAD). Work ONLY there. Do not read or touch `/repo`, `/verif` or any other directory under `/tmp`. There is no network. Build and test with
`cd /tmp/seed-{prop} && CARGO_NET_OFFLINE=true CARGO_TARGET_DIR=/tmp/seed-{prop}/target cargo test --lib --offline` (the crate's pinned unit tests: 674 tests, all must still pass with your change; doctests are not part of the pinned suite).

## The property your changes must break
id: {prop}
title: {p['title']}
statement: {p['statement']}
quantifier: {p['quantifier']['text']}
code the property is anchored in ({', '.join(anchors.get('files', []))}):
{mech}
functions where it is observed: {', '.join(anchors.get('observe_at', []))}

## What to produce: two independent changes, named {v1} and {v2}
Each change is a patch to the crate's source (under `src/`) such that
1. the crate still compiles (default features, and every feature your demonstration uses) and all 674 pinned unit tests still pass (`cargo test --lib --offline`);
2. the property above is genuinely violated by the public API for some inputs / call sequences / instantiations: a user relying on the statement would get a wrong result (not merely a different rounding, not a change of behaviour that the statement leaves open, not something outside the documented input domain of the function such as arguments its own doc comment or assertions forbid);
3. it looks like something a maintainer could plausibly have committed: an optimisation, a fast path, a refactor that shares code, a "robustness" guard, a generalisation, a port between layouts, a dedup of macro arms — with a short plausible commit-style rationale in a code comment if you like. No gratuitous sabotage, no `if x == 12345` magic constants;
4. it needs *something specific* to manifest, and ordinary use would not expose it at once: a particular regime of inputs, a rarely used operand form / type instantiation / layout / feature, a particular sequence of calls, an unusual but legal argument, or two cooperating sites that each look fine alone. The ideal change survives a strong randomized suite that throws millions of "reasonable" random inputs at every public function named by the property, and still is a real bug for a real user.
The two changes must be independent of each other (each is a separate patch against the unmodified tree), differ in *kind* (not the same trick at two sites) and must not touch `Cargo.toml`, tests or docs.

For each change also write a demonstration: a self-contained Rust integration test file (it will be placed at `tests/demo.rs` of the crate; `extern crate vek;`, only the crate's existing dependencies, deterministic, no randomness, a handful of `#[test]` functions) that PASSES on the unmodified tree and FAILS (assertion failure or panic) with your patch applied. The demonstration must assert what the property states (compare with values you compute independently, by hand or with plain arithmetic in the test), with a tolerance no tighter than is honest for the element type. If it needs cargo features, say so.

## Ideas that earlier reviewers already used for this property (pick a DIFFERENT site or a different kind of trigger)
{chr(10).join(earlier) if earlier else '(none)'}

## What the randomized suite is known to visit (so that you do not waste your change on it)
It instantiates the generic code with exact rational arithmetic as well as f32/f64/all integer types, so any change that alters the result on a dense set of ordinary inputs is caught at once, for every size, both matrix layouts and every owned / borrowed / in-place / compound-assignment form, trait-method twins and deprecated aliases included. Beyond ordinary inputs it is known to visit: operands scaled by 2^k up to the limits of the float range (tiny and huge lengths, units, angles many turns from zero, narrow fields of view, far/near ratios beyond 1/epsilon, nearly singular and nearly cancelling configurations, nearly opposite / nearly parallel directions, steep cameras), IEEE special values in single lanes (NaN, infinities, -0.0, subnormals), integer arguments at the limits of all 24 integer element types, structured operands (diagonal, triangular, permutation, exactly affine, pure translations, transposes / inverses of each other, equal or aliased operands, a value compared with itself), unusual element types (zero-sized, non-Copy with drop glue, over-aligned, multi-kilobyte, reference-counted, user-defined numeric types with their own tolerances), iterators with inexact size hints, adapters (`rev`, `nth`, `skip`, `step_by`, `zip`, `fold` with panicking closures), format flags, untyped literals, out-of-range indices, exact boundary positions (points exactly on edges, vertices, box faces, interval ends) and every cargo feature singly and in pairs. A change whose trigger is one of these, in the obvious way, will most likely be noticed. Think about what such a suite would still *not* look at: interactions between two features of the API, a sequence of calls that leaves state behind, a regime defined by a *relation* between several arguments, a precision loss that only matters for one element type, a contract stated in the property that is easy to forget, an instantiation nobody writes in tests, a rarely used constructor or conversion path, behaviour that differs only in one layout x size x operand-form combination and only for special structure, and so on.

## Deliverables (exact paths)
For V in {{{v1}, {v2}}}: directory `/tmp/seed-{prop}/seed_out/V/` containing
- `patch.diff` — output of `git diff` for the change against the unmodified tree (only files under `src/`), applicable with `git apply` from the worktree root;
- `demo.rs` — the demonstration test file described above;
- `meta.json` — `{{"summary": "<what was changed, where, and the plausible rationale>", "needs": "<precisely what is needed for the violation to manifest: inputs, types, layout, call sequence, tolerance at which it shows>", "features": "<cargo features the demo needs, or \\"default\\">"}}`.
Before you finish, verify for each change, yourself, from a clean tree (`git checkout -- .`): (a) copy demo.rs to tests/demo.rs, `cargo test --test demo --offline [--features ...]` passes without the patch; (b) with the patch applied `cargo test --lib --offline` reports 674 passed, 0 failed; (c) with the patch applied the demo fails. Then restore the tree (`git checkout -- . && rm -rf tests/demo.rs`), leaving only `seed_out/` behind (the `target/` directory may stay). If after honest effort you can only produce one change that meets all the conditions, deliver one and say so. Report, in your final message, one paragraph per change: what it is and what it needs to manifest.""")
