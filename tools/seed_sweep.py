#!/usr/bin/env python3
"""Re-run every seeded change under /verif/seeded against the current quick checks (isolated, via mutx.py) and record
the verdict in its meta.json (quick_check_verdict, quick_check_output_tail, swept_at_verif_commit).
usage: seed_sweep.py [Cxx ...]   (default: all); SWEEP_SUFFIX=KL restricts to seeds whose letter is in the set"""
import glob, json, os, subprocess, sys
want = [a.upper() for a in sys.argv[1:]]
head = subprocess.run('git -C /verif rev-parse --short HEAD', shell=True, capture_output=True, text=True).stdout.strip()
last = None
for d in sorted(glob.glob('/verif/seeded/*')):
    name = os.path.basename(d); prop = name.split('-')[0]
    if want and prop not in want: continue
    if os.environ.get('SWEEP_SUFFIX') and name.split('-')[1] not in os.environ['SWEEP_SUFFIX']: continue
    if last and last != prop:
        subprocess.run(['/verif/tools/mutx.py', last, '--clean'], capture_output=True)
    last = prop
    r = subprocess.run(['/verif/tools/mutx.py', prop, '--patch', d + '/patch.diff'], capture_output=True, text=True)
    out = [l for l in r.stdout.splitlines() if not l.startswith('WARNING')]
    first = out[0] if out else ('no output: ' + r.stderr[-200:])
    m = json.load(open(d + '/meta.json'))
    m.setdefault('first_verdict', m.get('quick_check_verdict'))
    m['quick_check_verdict'] = first.split(' ')[0]
    m['quick_check_output_tail'] = [l.strip()[:300] for l in out[-4:]]
    m['swept_at_verif_commit'] = head
    json.dump(m, open(d + '/meta.json', 'w'), indent=1)
    print(name, first[:120], flush=True)
if last:
    subprocess.run(['/verif/tools/mutx.py', last, '--clean'], capture_output=True)
