#!/usr/bin/env python3
"""Which lines of vek does no check execute?  (a generator-health measurement, not a check)
Builds the harness with `-C instrument-coverage` (nightly, its own target dir under /tmp), runs every property's
binary at the quick tier, merges the profiles and lists, per source file of /repo/src, the functions and line ranges
that were never executed by ANY check.  Uninstantiated generic functions appear as never executed.
usage: srccov.py [--build] [--run] [--report]   (default: all three);  output: /verif/work/srccov/{summary.txt, uncovered.txt}
Scratch: /tmp/covtgt (target dir), /tmp/covraw (profiles); remove both when done (srccov.py --clean)."""
import glob, json, os, re, shutil, subprocess, sys
TGT, RAW, OUT = '/tmp/covtgt', '/tmp/covraw', '/verif/work/srccov'
args = sys.argv[1:] or ['--build', '--run', '--report']
if '--clean' in args:
    shutil.rmtree(TGT, ignore_errors=True); shutil.rmtree(RAW, ignore_errors=True); sys.exit(0)
sysroot = subprocess.run('rustc +nightly --print sysroot', shell=True, capture_output=True, text=True).stdout.strip()
BIN = f'{sysroot}/lib/rustlib/x86_64-unknown-linux-gnu/bin'
env = dict(os.environ, CARGO_NET_OFFLINE='true', CARGO_TARGET_DIR=TGT, RUSTFLAGS='-C instrument-coverage')
crates = [f'c{i:02d}' for i in range(1, 21)]
if '--build' in args:
    subprocess.run('cargo +nightly build --release --workspace', shell=True, cwd='/verif/harness', env=env, check=True)
if '--run' in args:
    shutil.rmtree(RAW, ignore_errors=True); os.makedirs(RAW)
    for c in crates:
        e = dict(os.environ, VERIF_ROOT='/tmp/covraw/out', LLVM_PROFILE_FILE=f'{RAW}/{c}-%p.profraw')
        os.makedirs('/tmp/covraw/out/evidence', exist_ok=True)
        r = subprocess.run([f'{TGT}/release/{c}', '--tier', 'quick', '--scale', '1'], env=e, capture_output=True, text=True, cwd='/verif/harness')
        print(c, 'rc', r.returncode, (r.stdout.strip().splitlines() or [''])[-1][:160], flush=True)
if '--report' in args:
    os.makedirs(OUT, exist_ok=True)
    subprocess.run(f'{BIN}/llvm-profdata merge -sparse {RAW}/*.profraw -o {RAW}/all.profdata', shell=True, check=True)
    objs = ' '.join(f'-object {TGT}/release/{c}' for c in crates)
    # per-line counts for vek's sources
    r = subprocess.run(f'{BIN}/llvm-cov export -format=text -instr-profile={RAW}/all.profdata {objs} --sources /repo/src', shell=True, capture_output=True, text=True)
    data = json.loads(r.stdout)['data'][0]
    props = [json.loads(l) for l in open('/verif/properties.jsonl')]
    def owners(path, line):
        o = []
        for p in props:
            for m in p['anchors'].get('mechanism', []):
                w = re.match(r'(src/\S+?):(\d+)-(\d+)', m['where'])
                if w and path.endswith(w.group(1)) and int(w.group(2)) <= line <= int(w.group(3)):
                    o.append(p['id'])
        return sorted(set(o))
    summ, unc = [], []
    for f in data['files']:
        path = f['filename']; s = f['summary']
        summ.append(f"{path}: lines {s['lines']['covered']}/{s['lines']['count']} ({s['lines']['percent']:.1f}%), functions {s['functions']['covered']}/{s['functions']['count']}, regions {s['regions']['covered']}/{s['regions']['count']}")
        # segments: [line, col, count, hasCount, isRegionEntry, isGap]
        linecount = {}
        segs = f['segments']
        for i, sg in enumerate(segs):
            if not sg[3] or sg[5]: continue
            l0 = sg[0]; l1 = segs[i + 1][0] if i + 1 < len(segs) else l0
            for l in range(l0, max(l0, l1 - (1 if i + 1 < len(segs) and segs[i + 1][1] <= 1 else 0)) + 1):
                linecount[l] = max(linecount.get(l, 0), sg[2])
        src = open(path).read().splitlines()
        zero = sorted(l for l, c in linecount.items() if c == 0 and l <= len(src) and src[l - 1].strip() and not src[l - 1].strip().startswith('//'))
        # group consecutive
        grp = []
        for l in zero:
            if grp and l <= grp[-1][1] + 1: grp[-1][1] = l
            else: grp.append([l, l])
        for a, b in grp:
            unc.append(f"{path}:{a}-{b} [{','.join(owners(path, a)) or '-'}] {src[a - 1].strip()[:110]}")
    open(f'{OUT}/summary.txt', 'w').write('\n'.join(summ) + '\n')
    open(f'{OUT}/uncovered.txt', 'w').write('\n'.join(unc) + '\n')
    print('\n'.join(summ)); print(len(unc), 'uncovered ranges ->', f'{OUT}/uncovered.txt')
